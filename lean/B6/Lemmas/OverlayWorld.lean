import B6.Lemmas.OverlayMerge
/-!
Helper lemmas for C16 (`B6.Props.C16`): the order on IDs, sortedness of the merge, lookups and
enumeration of a layered world against its shadowed feature set, the by-ID unions of reference queries.
-/
namespace B6.Lemmas.OverlayWorld
open B6.Model.OverlayWorld B6.Lemmas.OverlayMerge B6.Spec.Referrers

/-! ## the order on IDs -/

theorem idLt_iff (a b : Id) : idLt a b = true ↔ (a.1 < b.1 ∨ (a.1 = b.1 ∧ a.2 < b.2)) := by
  simp [idLt]

theorem idLt_trans {a b c : Id} (h1 : idLt a b = true) (h2 : idLt b c = true) : idLt a c = true := by
  rw [idLt_iff] at *; omega

theorem idLt_irrefl (a : Id) : idLt a a = false := by
  cases h : idLt a a with
  | false => rfl
  | true => rw [idLt_iff] at h; omega

theorem idLt_total {a b : Id} (h : ¬ idLt a b = true) (hne : a ≠ b) : idLt b a = true := by
  rw [idLt_iff] at *
  have : ¬ (a.1 = b.1 ∧ a.2 = b.2) := fun e => hne (Prod.ext e.1 e.2)
  omega

/-- strictly increasing IDs -/
def SortedIds {β : Type} (l : List (Id × β)) : Prop := (l.map (·.1)).Pairwise (fun a b => idLt a b = true)

variable {α : Type}

theorem mem_merge (L1 L2 : List (Id × α)) (e : Id × α × Bool) :
    e ∈ merge L1 L2 ↔ ((∃ x ∈ L1, e = (x.1, x.2, true)) ∨ (∃ y ∈ L2, e = (y.1, y.2, false))) := by
  fun_induction merge L1 L2 with
  | case1 ys => simp [eq_comm]
  | case2 x xs => simp [eq_comm]
  | case3 x xs y ys hlt ih =>
    simp only [List.mem_cons, ih]
    constructor
    · rintro (h | (⟨a, ha, he⟩ | ⟨b, hb, he⟩))
      · exact Or.inl ⟨x, Or.inl rfl, h⟩
      · exact Or.inl ⟨a, Or.inr ha, he⟩
      · exact Or.inr ⟨b, hb, he⟩
    · rintro (⟨a, ha | ha, he⟩ | ⟨b, hb, he⟩)
      · subst ha; exact Or.inl he
      · exact Or.inr (Or.inl ⟨a, ha, he⟩)
      · exact Or.inr (Or.inr ⟨b, hb, he⟩)
  | case4 x xs y ys hlt ih =>
    simp only [List.mem_cons, ih]
    constructor
    · rintro (h | (⟨a, ha, he⟩ | ⟨b, hb, he⟩))
      · exact Or.inr ⟨y, Or.inl rfl, h⟩
      · exact Or.inl ⟨a, ha, he⟩
      · exact Or.inr ⟨b, Or.inr hb, he⟩
    · rintro (⟨a, ha, he⟩ | ⟨b, hb | hb, he⟩)
      · exact Or.inr (Or.inl ⟨a, ha, he⟩)
      · subst hb; exact Or.inl he
      · exact Or.inr (Or.inr ⟨b, hb, he⟩)

theorem merge_sorted (L1 L2 : List (Id × α)) (h1 : SortedIds L1) (h2 : SortedIds L2)
    (hd : ∀ x ∈ L1, ∀ y ∈ L2, x.1 ≠ y.1) : SortedIds (merge L1 L2) := by
  fun_induction merge L1 L2 with
  | case1 ys => simpa [SortedIds, List.map_map, Function.comp_def] using h2
  | case2 x xs => simpa [SortedIds, List.map_map, Function.comp_def] using h1
  | case3 x xs y ys hlt ih =>
    simp only [SortedIds, List.map_cons, List.pairwise_cons] at h1 h2 ⊢
    refine ⟨?_, ih h1.2 (by simpa [SortedIds] using h2) (fun a ha b hb => hd a (List.mem_cons_of_mem _ ha) b hb)⟩
    intro i hi
    obtain ⟨e, he, rfl⟩ := List.mem_map.mp hi
    rcases (mem_merge _ _ e).mp he with ⟨a, ha, rfl⟩ | ⟨b, hb, rfl⟩
    · exact h1.1 a.1 (List.mem_map.mpr ⟨a, ha, rfl⟩)
    · rcases List.mem_cons.mp hb with rfl | hb
      · exact hlt
      · exact idLt_trans hlt (h2.1 b.1 (List.mem_map.mpr ⟨b, hb, rfl⟩))
  | case4 x xs y ys hlt ih =>
    simp only [SortedIds, List.map_cons, List.pairwise_cons] at h1 h2 ⊢
    refine ⟨?_, ih (by simpa [SortedIds] using h1) h2.2 (fun a ha b hb => hd a ha b (List.mem_cons_of_mem _ hb))⟩
    have hyx : idLt y.1 x.1 = true :=
      idLt_total hlt (hd x List.mem_cons_self y List.mem_cons_self)
    intro i hi
    obtain ⟨e, he, rfl⟩ := List.mem_map.mp hi
    rcases (mem_merge _ _ e).mp he with ⟨a, ha, rfl⟩ | ⟨b, hb, rfl⟩
    · rcases List.mem_cons.mp ha with rfl | ha
      · exact hyx
      · exact idLt_trans hyx (h1.1 a.1 (List.mem_map.mpr ⟨a, ha, rfl⟩))
    · exact h2.1 b.1 (List.mem_map.mpr ⟨b, hb, rfl⟩)

theorem sorted_filter {β : Type} (l : List (Id × β)) (p : Id × β → Bool) (h : SortedIds l) : SortedIds (l.filter p) := by
  unfold SortedIds at *
  exact List.Pairwise.sublist (List.Sublist.map _ List.filter_sublist) h

theorem sorted_nodup {β : Type} (l : List (Id × β)) (h : SortedIds l) : (l.map (·.1)).Nodup := by
  unfold SortedIds at h
  apply List.Pairwise.imp _ h
  intro a b hab e
  subst e
  rw [idLt_irrefl] at hab; cases hab

/-! ## lookups and enumeration against the shadowed feature set -/

theorem find_filter (l : Layer) (q : Feat → Bool) (id : Id) (h : ∀ f ∈ l, f.id = id → q f = true) :
    Layer.find (l.filter q) id = Layer.find l id := by
  induction l with
  | nil => rfl
  | cons a l ih =>
    have ih' := ih (fun f hf => h f (List.mem_cons_of_mem _ hf))
    simp only [Layer.find] at ih' ⊢
    by_cases ha : a.id = id
    · have hq := h a List.mem_cons_self ha
      simp [List.filter_cons, hq, List.find?_cons, ha]
    · by_cases hq : q a = true
      · simp [List.filter_cons, hq, List.find?_cons, ha, ih']
      · simp [List.filter_cons, hq, List.find?_cons, ha, ih']

theorem find_none_filter (l : Layer) (q : Feat → Bool) (id : Id) (h : ∀ f ∈ l, f.id = id → q f = false) :
    Layer.find (l.filter q) id = none := by
  simp only [Layer.find, List.find?_eq_none, List.mem_filter, decide_eq_true_eq]
  rintro f ⟨hf, hq⟩ e
  rw [h f hf e] at hq; cases hq

theorem find_some {l : Layer} {id : Id} {f : Feat} (h : l.find id = some f) : f ∈ l ∧ f.id = id := by
  simp only [Layer.find] at h
  exact ⟨List.mem_of_find?_eq_some h, by simpa using List.find?_some h⟩

theorem has_iff (l : Layer) (id : Id) : l.has id = true ↔ ∃ f ∈ l, f.id = id := by
  simp [Layer.has, Layer.find, List.find?_isSome]

/-- **lookup_shadow**: `FindFeatureByID` of the layered world = lookup in the shadowed feature set -/
theorem get_eq_merged (w : OW) (id : Id) : w.get id = w.merged.find id := by
  simp only [OW.get, OW.merged, OW.each]
  cases ho : w.overlay.find id with
  | some f =>
    simp only [Layer.find] at ho ⊢
    simp [List.find?_append, ho]
  | none =>
    have hno : w.overlay.has id = false := by simp [Layer.has, ho]
    simp only [Layer.find] at ho
    have : Layer.find (w.overlay ++ w.base.filter (fun f => !w.overlay.has f.id)) id =
        Layer.find (w.base.filter (fun f => !w.overlay.has f.id)) id := by
      simp only [Layer.find, List.find?_append, ho, Option.none_or]
    rw [this, find_filter]
    intro f _ e
    simp [e, hno]

theorem has_eq_merged (w : OW) (id : Id) : w.has id = w.merged.has id := by
  have := get_eq_merged w id
  simp only [OW.has, Layer.has, ← this, OW.get]
  cases w.overlay.find id <;> simp

/-- **location shadowing** (after the repair): the location of the shadowed feature set -/
theorem loc_eq_merged (w : OW) (id : Id) : w.loc id = w.merged.loc id := by
  unfold OW.loc
  by_cases hh : w.overlay.has id = true
  · rw [if_pos hh]
    obtain ⟨f, hf⟩ := Option.isSome_iff_exists.mp hh
    have hm : w.merged.find id = some f := by rw [← get_eq_merged]; simp [OW.get, hf]
    simp [Layer.loc, hf, hm]
  · rw [if_neg hh]
    have hnone : w.overlay.find id = none := by
      cases hf : w.overlay.find id with
      | none => rfl
      | some f => exact absurd (by simp [Layer.has, hf]) hh
    have hm : w.merged.find id = w.base.find id := by rw [← get_eq_merged]; simp [OW.get, hnone]
    simp [Layer.loc, hm]

/-- **each_once**: when neither layer repeats an ID, `EachFeature` yields every ID of the layered
world exactly once, and a feature of the overlay whenever the overlay holds the ID -/
theorem each_nodup (w : OW) (ho : (w.overlay.map (·.id)).Nodup) (hb : (w.base.map (·.id)).Nodup) :
    (w.each.map (·.id)).Nodup := by
  simp only [OW.each, List.map_append]
  rw [List.nodup_append]
  refine ⟨ho, List.Nodup.sublist (List.Sublist.map _ List.filter_sublist) hb, ?_⟩
  intro a ha b hb' e
  subst e
  obtain ⟨f, hf, rfl⟩ := List.mem_map.mp ha
  obtain ⟨g, hg, he⟩ := List.mem_map.mp hb'
  have hsh := (List.mem_filter.mp hg).2
  have : w.overlay.has g.id = true := (has_iff _ _).mpr ⟨f, hf, he.symm⟩
  simp [this] at hsh

theorem mem_each (w : OW) (f : Feat) :
    f ∈ w.each ↔ (f ∈ w.overlay ∨ (f ∈ w.base ∧ w.overlay.has f.id = false)) := by
  simp [OW.each, List.mem_append, List.mem_filter]

/-! ## the by-ID unions of reference queries -/

/-- the reference skeleton of a layer (what the C15 specification speaks about) -/
abbrev rl (l : Layer) : List B6.Model.RefIndex.Feature := l.map Feat.toRef

theorem refers_rl (l : Layer) (t s : Id) : Refers (rl l) t s ↔ ∃ f ∈ l, f.id = s ∧ t ∈ f.refs := by
  simp only [Refers, rl, List.mem_map]
  constructor
  · rintro ⟨g, ⟨f, hf, rfl⟩, h1, h2⟩; exact ⟨f, hf, h1, h2⟩
  · rintro ⟨f, hf, h1, h2⟩; exact ⟨f.toRef, ⟨f, hf, rfl⟩, h1, h2⟩

theorem reach_last {l : Layer} {id s : Id} (h : ReachPlus (rl l) id s) : ∃ f ∈ l, f.id = s ∧ f.refs ≠ [] := by
  cases h with
  | direct h => obtain ⟨f, hf, h1, h2⟩ := (refers_rl l _ _).mp h; exact ⟨f, hf, h1, List.ne_nil_of_mem h2⟩
  | step _ h => obtain ⟨f, hf, h1, h2⟩ := (refers_rl l _ _).mp h; exact ⟨f, hf, h1, List.ne_nil_of_mem h2⟩

theorem reach_mono' {l l' : Layer} (hsub : ∀ f ∈ l, f ∈ l') {id s : Id} (h : ReachPlus (rl l) id s) :
    ReachPlus (rl l') id s := by
  induction h with
  | direct h =>
    obtain ⟨f, hf, h1, h2⟩ := (refers_rl l _ _).mp h
    exact .direct ((refers_rl l' _ _).mpr ⟨f, hsub f hf, h1, h2⟩)
  | step _ h ih =>
    obtain ⟨f, hf, h1, h2⟩ := (refers_rl l _ _).mp h
    exact .step ih ((refers_rl l' _ _).mpr ⟨f, hsub f hf, h1, h2⟩)

theorem mem_findRefs {l : Layer} {id : Id} {typed : List Nat} {R : List Feat} (h : l.findRefs id typed = some R)
    (f : Feat) : f ∈ R ↔ (l.find f.id = some f ∧ ReachPlus (rl l) id f.id ∧ typeOk typed f.id = true) := by
  unfold Layer.findRefs Layer.referrers at h
  cases hr : referrers (List.map Feat.toRef l) id with
  | none => simp [hr] at h
  | some rs =>
    simp only [hr, Option.some.injEq] at h
    subst h
    have hspec := referrers_spec _ _ _ hr
    simp only [List.mem_filterMap]
    constructor
    · rintro ⟨s, hs, he⟩
      by_cases ht : typeOk typed s = true
      · simp only [ht, ↓reduceIte] at he
        have := (find_some he).2
        subst this
        exact ⟨he, (hspec _).mp hs, ht⟩
      · simp [ht] at he
    · rintro ⟨h1, h2, h3⟩
      exact ⟨f.id, (hspec _).mpr h2, by simp [h3, h1]⟩

def unionStep (acc : List Feat) (f : Feat) : List Feat :=
  if acc.any (fun g => decide (g.id = f.id)) then acc.map (fun g => if g.id = f.id then f else g) else acc ++ [f]

theorem byIdUnion_eq (xs : List Feat) : byIdUnion xs = xs.foldl unionStep [] := rfl

theorem unionStep_sub (acc : List Feat) (f g : Feat) (h : g ∈ unionStep acc f) : g ∈ acc ∨ g = f := by
  unfold unionStep at h
  split at h
  · obtain ⟨a, ha, he⟩ := List.mem_map.mp h
    split at he
    · exact Or.inr he.symm
    · exact Or.inl (he ▸ ha)
  · rcases List.mem_append.mp h with h | h
    · exact Or.inl h
    · exact Or.inr (by simpa using h)

theorem unionStep_ids (acc : List Feat) (f : Feat) (i : Id) :
    (∃ g ∈ unionStep acc f, g.id = i) ↔ ((∃ g ∈ acc, g.id = i) ∨ f.id = i) := by
  unfold unionStep
  split
  · rename_i hany
    simp only [List.any_eq_true, decide_eq_true_eq] at hany
    constructor
    · rintro ⟨g, hg, hi⟩
      obtain ⟨a, ha, he⟩ := List.mem_map.mp hg
      split at he
      · subst he; exact Or.inr hi
      · subst he; exact Or.inl ⟨a, ha, hi⟩
    · rintro (⟨g, hg, hi⟩ | hi)
      · by_cases hgf : g.id = f.id
        · exact ⟨f, List.mem_map.mpr ⟨g, hg, by simp [hgf]⟩, by rw [← hgf]; exact hi⟩
        · exact ⟨g, List.mem_map.mpr ⟨g, hg, by simp [hgf]⟩, hi⟩
      · obtain ⟨a, ha, hae⟩ := hany
        exact ⟨f, List.mem_map.mpr ⟨a, ha, by simp [hae]⟩, hi⟩
  · constructor
    · rintro ⟨g, hg, hi⟩
      rcases List.mem_append.mp hg with hg | hg
      · exact Or.inl ⟨g, hg, hi⟩
      · have : g = f := by simpa using hg
        subst this; exact Or.inr hi
    · rintro (⟨g, hg, hi⟩ | hi)
      · exact ⟨g, List.mem_append_left _ hg, hi⟩
      · exact ⟨f, List.mem_append_right _ (by simp), hi⟩

theorem fold_union (xs : List Feat) : ∀ (acc : List Feat),
    (∀ g ∈ xs.foldl unionStep acc, g ∈ acc ∨ g ∈ xs) ∧
    (∀ i, (∃ g ∈ xs.foldl unionStep acc, g.id = i) ↔ ((∃ g ∈ acc, g.id = i) ∨ ∃ g ∈ xs, g.id = i)) := by
  induction xs with
  | nil => intro acc; simp
  | cons x xs ih =>
    intro acc
    obtain ⟨h1, h2⟩ := ih (unionStep acc x)
    constructor
    · intro g hg
      rcases h1 g hg with h | h
      · rcases unionStep_sub acc x g h with h | h
        · exact Or.inl h
        · exact Or.inr (by simp [h])
      · exact Or.inr (List.mem_cons_of_mem _ h)
    · intro i
      simp only [List.foldl_cons]
      rw [h2 i, unionStep_ids]
      constructor
      · rintro ((h | h) | ⟨g, hg, hi⟩)
        · exact Or.inl h
        · exact Or.inr ⟨x, List.mem_cons_self, h⟩
        · exact Or.inr ⟨g, List.mem_cons_of_mem _ hg, hi⟩
      · rintro (h | ⟨g, hg, hi⟩)
        · exact Or.inl (Or.inl h)
        · rcases List.mem_cons.mp hg with rfl | hg
          · exact Or.inl (Or.inr hi)
          · exact Or.inr ⟨g, hg, hi⟩

theorem byIdUnion_sub (xs : List Feat) (g : Feat) (h : g ∈ byIdUnion xs) : g ∈ xs := by
  rcases (fold_union xs []).1 g h with h | h
  · cases h
  · exact h

theorem byIdUnion_ids (xs : List Feat) (i : Id) : (∃ g ∈ byIdUnion xs, g.id = i) ↔ ∃ g ∈ xs, g.id = i := by
  rw [byIdUnion_eq, (fold_union xs []).2 i]
  simp

/-- the two halves of `OW.independent` -/
theorem independent_down {w : OW} (h : w.independent = true) :
    ∀ y ∈ w.base, w.overlay.has y.id = false → ∀ t ∈ y.refs, w.overlay.has t = false := by
  simp only [OW.independent, Bool.and_eq_true, List.all_eq_true, Bool.or_eq_true, Bool.not_eq_true'] at h
  intro y hy hsh t ht
  rcases h.1 y hy with h1 | h1
  · rw [hsh] at h1; cases h1
  · exact h1 t ht

theorem independent_up {w : OW} (h : w.independent = true) :
    ∀ z ∈ w.overlay, ∀ t ∈ z.refs, w.overlay.has t = true ∨ ∀ y ∈ w.base, y.id = t → y.refs = [] := by
  simp only [OW.independent, Bool.and_eq_true, List.all_eq_true, Bool.or_eq_true, decide_eq_true_eq,
    List.isEmpty_iff] at h
  intro z hz t ht
  rcases h.2 z hz t ht with h1 | h1
  · exact Or.inl h1
  · refine Or.inr ?_
    intro y hy e
    rcases h1 y hy with h2 | h2
    · exact absurd e h2
    · exact h2

theorem base_reach_merged {w : OW} (hind : w.independent = true) {id s : Id} (h : ReachPlus (rl w.base) id s)
    (hs : w.overlay.has s = false) : ReachPlus (rl w.merged) id s := by
  induction h with
  | direct h =>
    obtain ⟨y, hy, h1, h2⟩ := (refers_rl _ _ _).mp h
    exact .direct ((refers_rl _ _ _).mpr ⟨y, (mem_each w y).mpr (Or.inr ⟨hy, by rw [h1]; exact hs⟩), h1, h2⟩)
  | step _ h ih =>
    obtain ⟨y, hy, h1, h2⟩ := (refers_rl _ _ _).mp h
    have hy' : w.overlay.has y.id = false := by rw [h1]; exact hs
    exact .step (ih (independent_down hind y hy hy' _ h2))
      ((refers_rl _ _ _).mpr ⟨y, (mem_each w y).mpr (Or.inr ⟨hy, hy'⟩), h1, h2⟩)

theorem merged_shape {w : OW} (hind : w.independent = true) {id s : Id} (h : ReachPlus (rl w.merged) id s) :
    (w.overlay.has s = false ∧ ReachPlus (rl w.base) id s) ∨ (w.overlay.has s = true ∧ ReachPlus (rl w.overlay) id s) := by
  induction h with
  | direct h =>
    obtain ⟨y, hy, h1, h2⟩ := (refers_rl _ _ _).mp h
    rcases (mem_each w y).mp hy with hy | ⟨hy, hsh⟩
    · exact Or.inr ⟨(has_iff _ _).mpr ⟨y, hy, h1⟩, .direct ((refers_rl _ _ _).mpr ⟨y, hy, h1, h2⟩)⟩
    · exact Or.inl ⟨by rw [← h1]; exact hsh, .direct ((refers_rl _ _ _).mpr ⟨y, hy, h1, h2⟩)⟩
  | @step t s _ h ih =>
    obtain ⟨y, hy, h1, h2⟩ := (refers_rl _ _ _).mp h
    rcases (mem_each w y).mp hy with hy | ⟨hy, hsh⟩
    · have hs : w.overlay.has s = true := (has_iff _ _).mpr ⟨y, hy, h1⟩
      rcases ih with ⟨ht, hb⟩ | ⟨_, hr⟩
      · -- an overlay feature references a surviving base feature that itself references something
        rcases independent_up hind y hy t h2 with hup | hup
        · rw [ht] at hup; cases hup
        · obtain ⟨g, hg, hgid, hne⟩ := reach_last hb
          exact absurd (hup g hg hgid) hne
      · exact Or.inr ⟨hs, .step hr ((refers_rl _ _ _).mpr ⟨y, hy, h1, h2⟩)⟩
    · have ht : w.overlay.has t = false := independent_down hind y hy hsh t h2
      rcases ih with ⟨_, hb⟩ | ⟨ht', _⟩
      · exact Or.inl ⟨by rw [← h1]; exact hsh, .step hb ((refers_rl _ _ _).mpr ⟨y, hy, h1, h2⟩)⟩
      · rw [ht] at ht'; cases ht'

theorem reach_find {l : Layer} {id s : Id} (h : ReachPlus (rl l) id s) : ∃ f, l.find s = some f := by
  obtain ⟨g, hg, hgid, _⟩ := reach_last h
  have : l.has s = true := (has_iff _ _).mpr ⟨g, hg, hgid⟩
  exact Option.isSome_iff_exists.mp this

/-- **union_refs_partial.** For layers that do not interleave along reference chains
(`OW.independent`), the by-ID union (after the repair) returns exactly the referrers within the
shadowed feature set, of the requested types, and every returned feature is the current version. -/
theorem union_refs (w : OW) (hind : w.independent = true) (id : Id) (typed : List Nat) (R : List Feat)
    (h : w.findRefsUnion id typed = some R) :
    (∀ s, (∃ f ∈ R, f.id = s) ↔ (ReachPlus (rl w.merged) id s ∧ typeOk typed s = true)) ∧
    (∀ f ∈ R, f ∈ w.merged) := by
  unfold OW.findRefsUnion at h
  cases hb : w.base.findRefs id typed with
  | none => simp [hb] at h
  | some B =>
    cases ho : w.overlay.findRefs id typed with
    | none => simp [hb, ho] at h
    | some O =>
      simp only [hb, ho, Option.some.injEq] at h
      subst h
      have hB := mem_findRefs hb
      have hO := mem_findRefs ho
      have hov_sub : ∀ f ∈ w.overlay, f ∈ w.merged := fun f hf => (mem_each w f).mpr (Or.inl hf)
      constructor
      · intro s
        rw [byIdUnion_ids]
        constructor
        · rintro ⟨f, hf, rfl⟩
          rcases List.mem_append.mp hf with hf | hf
          · obtain ⟨hfB, hsh⟩ := List.mem_filter.mp hf
            obtain ⟨_, hr, ht⟩ := (hB f).mp hfB
            exact ⟨base_reach_merged hind hr (by simpa using hsh), ht⟩
          · obtain ⟨_, hr, ht⟩ := (hO f).mp hf
            exact ⟨reach_mono' hov_sub hr, ht⟩
        · rintro ⟨hr, ht⟩
          rcases merged_shape hind hr with ⟨hs, hbr⟩ | ⟨_, hor⟩
          · obtain ⟨f, hf⟩ := reach_find hbr
            have hfid := (find_some hf).2
            refine ⟨f, List.mem_append_left _ (List.mem_filter.mpr ⟨(hB f).mpr ?_, ?_⟩), hfid⟩
            · rw [hfid]; exact ⟨hf, hbr, ht⟩
            · simp [hfid, hs]
          · obtain ⟨f, hf⟩ := reach_find hor
            have hfid := (find_some hf).2
            refine ⟨f, List.mem_append_right _ ((hO f).mpr ?_), hfid⟩
            rw [hfid]; exact ⟨hf, hor, ht⟩
      · intro f hf
        have hf := byIdUnion_sub _ f hf
        rcases List.mem_append.mp hf with hf | hf
        · obtain ⟨hfB, hsh⟩ := List.mem_filter.mp hf
          obtain ⟨hfind, _, _⟩ := (hB f).mp hfB
          exact (mem_each w f).mpr (Or.inr ⟨(find_some hfind).1, by simpa using hsh⟩)
        · obtain ⟨hfind, _, _⟩ := (hO f).mp hf
          exact hov_sub f (find_some hfind).1

end B6.Lemmas.OverlayWorld
