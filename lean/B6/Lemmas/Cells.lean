import B6.Model.Cells
/-!
Helper lemmas for C04: membership characterisations of the token functions of `B6.Model.Cells`.
Core Lean only.
-/
namespace B6.Lemmas.Cells
open B6.Model.Cells

theorem mem_dedup {α} [DecidableEq α] (x : α) (l : List α) : x ∈ dedup l ↔ x ∈ l := by
  induction l with
  | nil => simp [dedup]
  | cons y ys ih =>
    unfold dedup
    by_cases h : y ∈ ys
    · simp only [h, ↓reduceIte, ih, List.mem_cons]
      constructor
      · intro hx; exact Or.inr hx
      · intro hx
        cases hx with
        | inl e => exact e ▸ h
        | inr hx => exact hx
    · simp only [h, ↓reduceIte, List.mem_cons, ih]

theorem level_up (c : Cell) (k : Nat) : (c.up k).level = c.level - k := by
  simp only [Cell.up, Cell.level, List.length_take]
  omega

theorem up_zero (c : Cell) : c.up 0 = c := by
  cases c with
  | mk f p => simp [Cell.up, Cell.level]

theorem up_up (c : Cell) (j k : Nat) : (c.up j).up k = c.up (j + k) := by
  have h := level_up c j
  simp only [Cell.up, Cell.level] at *
  simp only [List.take_take, Cell.mk.injEq, true_and]
  rw [h]
  congr 1
  omega

theorem up_face (c : Cell) (k : Nat) : (c.up k).face = c.face := rfl

/-- proper ancestors are exactly the cells `k ≥ 1` levels up -/
theorem isAncestor_iff (a c : Cell) :
    Cell.IsAncestor a c ↔ ∃ k, 1 ≤ k ∧ k ≤ c.level ∧ a = c.up k := by
  constructor
  · rintro ⟨hf, hp, hl⟩
    refine ⟨c.path.length - a.path.length, by omega, by simp [Cell.level], ?_⟩
    cases a with
    | mk af ap =>
      cases c with
      | mk cf cp =>
        simp only [Cell.up, Cell.level, Cell.mk.injEq] at *
        refine ⟨hf, ?_⟩
        have : cp.length - (cp.length - ap.length) = ap.length := by omega
        rw [this]
        exact List.prefix_iff_eq_take.mp hp
  · rintro ⟨k, h1, h2, rfl⟩
    refine ⟨rfl, ?_, ?_⟩
    · exact List.take_prefix _ _
    · have := level_up c k
      simp only [Cell.level] at this h2
      rw [this]; omega

theorem mem_parents (p : Cell) (cells : List Cell) :
    p ∈ parents cells ↔ ∃ c ∈ cells, 1 ≤ c.level ∧ p = c.up 1 := by
  simp only [parents, mem_dedup, List.mem_filterMap, Cell.parent?]
  constructor
  · rintro ⟨c, hc, h⟩
    by_cases h0 : c.level = 0
    · simp [h0] at h
    · simp only [h0, ↓reduceIte, Option.some.injEq] at h
      exact ⟨c, hc, by omega, h.symm⟩
  · rintro ⟨c, hc, h1, rfl⟩
    refine ⟨c, hc, ?_⟩
    have h0 : ¬ c.level = 0 := by omega
    simp [h0]

theorem s2_not_mem_aux (p : Cell) : ∀ (fuel : Nat) (cells : List Cell),
    Token.s2 p ∉ ancestorTokensAux fuel cells := by
  intro fuel
  induction fuel with
  | zero => intro cells; simp [ancestorTokensAux]
  | succ n ih =>
    intro cells
    unfold ancestorTokensAux
    by_cases he : cells.isEmpty
    · simp [he]
    · simp [he, ih]

theorem a2_mem_aux (p : Cell) : ∀ (fuel : Nat) (cells : List Cell),
    Token.a2 p ∈ ancestorTokensAux fuel cells ↔
      ∃ c ∈ cells, ∃ k, 1 ≤ k ∧ k ≤ fuel ∧ k ≤ c.level ∧ p = c.up k := by
  intro fuel
  induction fuel with
  | zero =>
    intro cells
    simp only [ancestorTokensAux, List.not_mem_nil, false_iff]
    rintro ⟨c, _, k, h1, h2, _⟩
    omega
  | succ n ih =>
    intro cells
    unfold ancestorTokensAux
    by_cases he : cells.isEmpty
    · have : cells = [] := by simpa using he
      subst this
      simp
    · simp only [he, Bool.false_eq_true, ↓reduceIte, List.mem_append, List.mem_map, Token.a2.injEq,
        exists_eq_right, ih, mem_parents]
      constructor
      · rintro (⟨c, hc, h1, rfl⟩ | ⟨c', ⟨c, hc, h1, rfl⟩, k, hk1, hk2, hk3, rfl⟩)
        · exact ⟨c, hc, 1, by omega, by omega, h1, rfl⟩
        · rw [level_up] at hk3
          exact ⟨c, hc, 1 + k, by omega, by omega, by omega, up_up c 1 k⟩
      · rintro ⟨c, hc, k, hk1, hk2, hk3, rfl⟩
        by_cases hk : k = 1
        · subst hk
          exact Or.inl ⟨c, hc, hk3, rfl⟩
        · refine Or.inr ⟨c.up 1, ⟨c, hc, by omega, rfl⟩, k - 1, by omega, by omega, ?_, ?_⟩
          · rw [level_up]; omega
          · rw [up_up]; congr 1; omega

theorem level_le_maxLevel {c : Cell} {cells : List Cell} (h : c ∈ cells) : c.level ≤ maxLevel cells := by
  induction cells with
  | nil => cases h
  | cons d ds ih =>
    simp only [maxLevel, List.foldr_cons]
    cases h with
    | head => omega
    | tail _ h' =>
      have := ih h'
      simp only [maxLevel] at this
      omega

/-- the round-by-round loop of `cellIDAncestorTokens` emits exactly the proper ancestors -/
theorem a2_mem_ancestorTokens (p : Cell) (cov : List Cell) :
    Token.a2 p ∈ cellIDAncestorTokens cov ↔ ∃ c ∈ cov, Cell.IsAncestor p c := by
  simp only [cellIDAncestorTokens, a2_mem_aux, isAncestor_iff]
  constructor
  · rintro ⟨c, hc, k, h1, _, h3, h4⟩
    exact ⟨c, hc, k, h1, h3, h4⟩
  · rintro ⟨c, hc, k, h1, h3, h4⟩
    have := level_le_maxLevel hc
    exact ⟨c, hc, k, h1, by omega, h3, h4⟩

theorem s2_not_mem_ancestorTokens (p : Cell) (cov : List Cell) :
    Token.s2 p ∉ cellIDAncestorTokens cov := s2_not_mem_aux p _ _

theorem s2_mem_tokens (skip0 : Bool) (p : Cell) (cov : List Cell) :
    Token.s2 p ∈ tokensForCoveringWith skip0 cov ↔ p ∈ cov ∧ ¬ (skip0 = true ∧ p.level = 0) := by
  simp only [tokensForCoveringWith, List.mem_append, List.mem_map, List.mem_filter, Token.s2.injEq,
    exists_eq_right, s2_not_mem_ancestorTokens, or_false]
  constructor
  · rintro ⟨h, hb⟩
    refine ⟨h, ?_⟩
    rintro ⟨hs, hl⟩
    simp [hs, hl] at hb
  · rintro ⟨h, hb⟩
    refine ⟨h, ?_⟩
    cases skip0 with
    | false => simp
    | true =>
      have : ¬ p.level = 0 := fun e => hb ⟨rfl, e⟩
      simp [this]

theorem a2_mem_tokens (skip0 : Bool) (p : Cell) (cov : List Cell) :
    Token.a2 p ∈ tokensForCoveringWith skip0 cov ↔ ∃ c ∈ cov, Cell.IsAncestor p c := by
  simp only [tokensForCoveringWith, List.mem_append, List.mem_map, a2_mem_ancestorTokens]
  constructor
  · rintro (⟨_, _, h⟩ | h)
    · cases h
    · exact h
  · intro h; exact Or.inr h

theorem mem_chain (p : Cell) : ∀ (n : Nat) (c : Cell),
    p ∈ chain n c ↔ ∃ k, k ≤ n ∧ k ≤ c.level ∧ p = c.up k := by
  intro n
  induction n with
  | zero =>
    intro c
    simp only [chain, List.mem_singleton]
    constructor
    · rintro rfl; exact ⟨0, by omega, by omega, (up_zero _).symm⟩
    · rintro ⟨k, hk, _, rfl⟩
      have : k = 0 := by omega
      subst this; exact up_zero c
  | succ n ih =>
    intro c
    unfold chain
    by_cases h0 : c.level = 0
    · simp only [Cell.parent?, h0, ↓reduceIte, List.mem_cons, List.not_mem_nil, or_false]
      constructor
      · rintro rfl; exact ⟨0, by omega, by omega, (up_zero _).symm⟩
      · rintro ⟨k, _, hk, rfl⟩
        have : k = 0 := by omega
        subst this; exact up_zero c
    · simp only [Cell.parent?, h0, ↓reduceIte, List.mem_cons, ih, level_up, up_up]
      constructor
      · rintro (rfl | ⟨k, h1, h2, rfl⟩)
        · exact ⟨0, by omega, by omega, (up_zero _).symm⟩
        · exact ⟨1 + k, by omega, by omega, rfl⟩
      · rintro ⟨k, h1, h2, rfl⟩
        by_cases hk : k = 0
        · subst hk; exact Or.inl (up_zero c)
        · refine Or.inr ⟨k - 1, by omega, by omega, ?_⟩
          congr 1; omega

theorem mem_selfAndAncestors (p c : Cell) :
    p ∈ selfAndAncestors c ↔ p = c ∨ Cell.IsAncestor p c := by
  simp only [selfAndAncestors, mem_chain, isAncestor_iff]
  constructor
  · rintro ⟨k, _, h2, rfl⟩
    by_cases hk : k = 0
    · subst hk; exact Or.inl (up_zero c)
    · exact Or.inr ⟨k, by omega, h2, rfl⟩
  · rintro (rfl | ⟨k, _, h2, rfl⟩)
    · exact ⟨0, by omega, by omega, (up_zero _).symm⟩
    · exact ⟨k, h2, h2, rfl⟩

theorem s2_mem_rewrite (p : Cell) (q : List Cell) :
    Token.s2 p ∈ rewriteSpatialQuery q ↔ ∃ c ∈ q, p = c ∨ Cell.IsAncestor p c := by
  simp only [rewriteSpatialQuery, List.mem_append, List.mem_map, Token.s2.injEq, exists_eq_right,
    mem_dedup, List.mem_flatMap, mem_selfAndAncestors]
  constructor
  · rintro (⟨_, _, h⟩ | h)
    · cases h
    · exact h
  · intro h; exact Or.inr h

theorem a2_mem_rewrite (p : Cell) (q : List Cell) :
    Token.a2 p ∈ rewriteSpatialQuery q ↔ p ∈ q := by
  simp only [rewriteSpatialQuery, List.mem_append, List.mem_map, Token.a2.injEq, exists_eq_right]
  constructor
  · rintro (h | ⟨_, _, h⟩)
    · exact h
    · cases h
  · intro h; exact Or.inl h

theorem shares_iff (ts rs : List Token) : shares ts rs = true ↔ ∃ t, t ∈ ts ∧ t ∈ rs := by
  simp [shares]

theorem coveringsMeet_iff (f q : List Cell) :
    coveringsMeet f q = true ↔ ∃ a ∈ f, ∃ b ∈ q, Cell.Intersects a b := by
  simp [coveringsMeet]

end B6.Lemmas.Cells
