import B6.Lemmas.Records
/-!
# Round-trip lemmas, part 2: Reference, References, LatLng, LatLngs, delta coded ints, Bits,
ReferencesAndLatLngs (kernel-only proofs, no Mathlib).
-/
namespace B6.Model.Records
open B6.Model.Varint

/-! ## Reference -/

theorem rt_reference (p : BitVec 16) (r : Reference) : RT (Reference.enc p r) (Reference.dec p) r := by
  have htn := r.tn.isLt
  have hval := r.value.isLt
  unfold Reference.enc Reference.dec
  split
  · -- explicit form
    refine RT.andThen (rt_uvarint (r.tn.toNat * 2 + 1) (by omega)) ?_
    rw [if_pos (by omega)]
    refine (RT.map _ (rt_uvarint r.value.toNat hval)).congr rfl ?_
    have : (r.tn.toNat * 2 + 1) / 2 = r.tn.toNat := by omega
    simp [this]
  · -- primary form: the namespace is implied, bit 63 is clear
    rename_i h
    have h' : r.tn = p ∧ r.value.toNat < 2 ^ 63 := by
      constructor
      · exact Classical.byContradiction fun hne => h (Or.inl hne)
      · exact Nat.lt_of_not_le fun hle => h (Or.inr hle)
    obtain ⟨h1, h2⟩ := h'
    have e : r.value.toNat * 2 % 2 ^ 64 = r.value.toNat * 2 := Nat.mod_eq_of_lt (by omega)
    rw [e]
    have := RT.andThen (f := fun v => if v % 2 = 1 then dUvarint.map fun x => (⟨BitVec.ofNat 16 (v / 2), BitVec.ofNat 64 x⟩ : Reference)
        else Dec.pure ⟨p, BitVec.ofNat 64 (v / 2)⟩) (rt_uvarint (r.value.toNat * 2) (by omega))
      (b := r) (e2 := []) (by
        rw [if_neg (by omega)]
        refine (RT.pure _).congr rfl ?_
        have : r.value.toNat * 2 / 2 = r.value.toNat := by omega
        rw [this, ← h1]
        simp)
    simpa using this

/-! ## References -/

theorem rt_referencesStep (p : BitVec 16) (last : BitVec 64) (r : Reference) :
    RT (References.encStep p last r).1 (References.decStep p last) (r, (References.encStep p last r).2) := by
  unfold References.encStep References.decStep
  split
  · rename_i h
    refine (RT.map _ (rt_reference p ⟨r.tn, zigzagEncode (r.value - last)⟩)).congr rfl ?_
    have e : last + (r.value - last) = r.value := by bv_omega
    simp only [h, if_true, zigzagDecode_zigzagEncode, e]
    cases r; simp_all
  · rename_i h
    refine (RT.map _ (rt_reference p r)).congr rfl ?_
    simp [h]

theorem rt_referencesBody (p : BitVec 16) (rs : List Reference) :
    RT (References.encBody p rs) (References.decBody p rs.length) rs :=
  RT.times (fun _ => True) _ _ (fun s a _ => rt_referencesStep p s a) rs 0#64 (fun _ _ => trivial)

theorem rt_references (p : BitVec 16) (rs : List Reference) (h : References.ok rs = true) :
    RT (References.enc p rs) (References.dec p) rs := by
  obtain ⟨_, hl, _⟩ := lenOk_spec 0 rs.length (by omega) h
  unfold References.enc References.dec
  refine RT.andThen (rt_lenHeader 0 rs.length (by omega) h) ?_
  rw [hl]
  exact rt_referencesBody p rs

/-! ## LatLng / LatLngs -/

theorem setWidth_signExtend_32_64 (x : BitVec 32) : (x.signExtend 64).setWidth 32 = x := by
  apply BitVec.eq_of_toNat_eq
  rw [BitVec.toNat_setWidth, BitVec.toNat_signExtend]
  have := x.isLt
  simp only [BitVec.toNat_setWidth]
  split <;> omega

theorem rt_delta32 (a b : BitVec 32) : RT (putDelta32 a b) dVarint ((a - b).signExtend 64) := rt_varint _

theorem rt_latlngsStep (last p : LatLng) :
    RT (LatLngs.encStep last p).1 (LatLngs.decStep last) (p, (LatLngs.encStep last p).2) := by
  unfold LatLngs.encStep LatLngs.decStep
  refine (RT.andThen (rt_delta32 p.lat last.lat) (RT.map _ (rt_delta32 p.lng last.lng))).congr rfl ?_
  have e1 : last.lat + (p.lat - last.lat) = p.lat := by bv_omega
  have e2 : last.lng + (p.lng - last.lng) = p.lng := by bv_omega
  simp only [setWidth_signExtend_32_64, e1, e2]

theorem rt_latlngsBody (lls : List LatLng) : RT (LatLngs.encBody lls) (LatLngs.decBody lls.length) lls :=
  RT.times (fun _ => True) _ _ (fun s a _ => rt_latlngsStep s a) lls LatLng.zero (fun _ _ => trivial)

theorem rt_latlngs (lls : List LatLng) (h : LatLngs.ok lls = true) : RT (LatLngs.enc lls) LatLngs.dec lls := by
  obtain ⟨_, hl, _⟩ := lenOk_spec 1 lls.length (by omega) h
  unfold LatLngs.enc LatLngs.dec
  refine RT.andThen (rt_lenHeader 1 lls.length (by omega) h) ?_
  rw [hl]
  exact rt_latlngsBody lls


theorem signExtend_32_64_toNat (x : BitVec 32) :
    ((x.signExtend 64).toNat = x.toNat ∧ x.toNat < 2 ^ 31) ∨
    ((x.signExtend 64).toNat = x.toNat + (2 ^ 64 - 2 ^ 32) ∧ 2 ^ 31 ≤ x.toNat) := by
  rw [BitVec.toNat_signExtend]
  have := x.isLt
  have hm := BitVec.msb_eq_decide x
  simp only [BitVec.toNat_setWidth]
  cases h : x.msb
  · simp only [h] at hm
    have : ¬ (2 ^ 31 ≤ x.toNat) := by simpa using hm.symm
    left; simp; omega
  · simp only [h] at hm
    have : 2 ^ 31 ≤ x.toNat := by simpa using hm.symm
    right; simp; omega

theorem latWord_lt (ll : LatLng) : ll.latWord < 2 ^ 33 := by
  unfold LatLng.latWord
  rw [zigzagEncode_eq_varintZig, varintZig_toNat]
  have := ll.lat.isLt
  rcases signExtend_32_64_toNat ll.lat with ⟨h, h'⟩ | ⟨h, h'⟩ <;> rw [h] <;> split <;> omega

/-- `LatLng.Marshal` never panics: the zigzag of an `int32` fits 33 bits. -/
theorem latlng_ok (ll : LatLng) : ll.ok = true := by
  unfold LatLng.ok
  rw [valueTypeOk_iff]
  have := latWord_lt ll
  omega

theorem rt_latlng (ll : LatLng) : RT ll.enc LatLng.dec ll := by
  have hw := latWord_lt ll
  obtain ⟨a, b, _⟩ := encodeValueType_spec 1 ll.latWord (by omega) (by omega)
  unfold LatLng.enc LatLng.dec
  refine (RT.andThen ((rt_value _ a).congr rfl b) (RT.map _ (rt_u32 ll.lng))).congr rfl ?_
  simp only [LatLng.latWord, BitVec.ofNat_toNat, BitVec.setWidth_eq, zigzagDecode_zigzagEncode, setWidth_signExtend_32_64]

/-! ## delta coded ints -/

theorem rt_deltaIntsStep (last v : BitVec 64) :
    RT (DeltaInts.encStep last v).1 (DeltaInts.decStep last) (v, (DeltaInts.encStep last v).2) := by
  unfold DeltaInts.encStep DeltaInts.decStep
  refine (RT.map _ (rt_uvarint _ (zigzagEncode (v - last)).isLt)).congr rfl ?_
  have e : last + (v - last) = v := by bv_omega
  simp only [BitVec.ofNat_toNat, BitVec.setWidth_eq, zigzagDecode_zigzagEncode, e]

theorem rt_deltaInts (vs : List (BitVec 64)) : RT (DeltaInts.enc vs) (DeltaInts.dec vs.length) vs :=
  RT.times (fun _ => True) _ _ (fun s a _ => rt_deltaIntsStep s a) vs 0#64 (fun _ _ => trivial)

/-! ## Bits -/

theorem toUInt8_toNat (n : Nat) (h : n < 256) : (n.toUInt8).toNat = n := by
  simp [Nat.toUInt8, UInt8.toNat_ofNat', Nat.mod_eq_of_lt h]

theorem bitsOfByte_byteOfBits (l : List Bool) : bitsOfByte l.length (byteOfBits l) = l := by
  induction l with
  | nil => rfl
  | cons b bs ih =>
    simp only [List.length_cons, bitsOfByte, byteOfBits]
    have h1 : (b.toNat + 2 * byteOfBits bs) / 2 = byteOfBits bs := by cases b <;> simp <;> omega
    have h2 : ((b.toNat + 2 * byteOfBits bs) % 2 == 1) = b := by cases b <;> simp <;> omega
    rw [h1, h2, ih]

theorem byteOfBits_lt (l : List Bool) : byteOfBits l < 2 ^ l.length := by
  induction l with
  | nil => simp [byteOfBits]
  | cons b bs ih =>
    simp only [List.length_cons, byteOfBits, Nat.pow_succ]
    cases b <;> simp <;> omega

theorem bits_of_packed_byte (l : List Bool) (h : l.length ≤ 8) :
    bitsOfByte l.length ((byteOfBits l).toUInt8).toNat = l := by
  have h1 := byteOfBits_lt l
  have h2 : 2 ^ l.length ≤ 2 ^ 8 := Nat.pow_le_pow_right (by omega) h
  rw [toUInt8_toNat _ (by omega), bitsOfByte_byteOfBits]

theorem rt_packBits (l : List Bool) : RT (packBits l) (unpackBits (l.length / 8) (l.length % 8)) l := by
  fun_induction packBits l with
  | case1 b0 b1 b2 b3 b4 b5 b6 b7 rest ih =>
    intro tail
    have e1 : (b0 :: b1 :: b2 :: b3 :: b4 :: b5 :: b6 :: b7 :: rest).length / 8 = rest.length / 8 + 1 := by
      simp only [List.length_cons]; omega
    have e2 : (b0 :: b1 :: b2 :: b3 :: b4 :: b5 :: b6 :: b7 :: rest).length % 8 = rest.length % 8 := by
      simp only [List.length_cons]; omega
    rw [e1, e2]
    simp only [List.cons_append, unpackBits, ih tail]
    have := bits_of_packed_byte [b0, b1, b2, b3, b4, b5, b6, b7] (by simp)
    have e8 : [b0, b1, b2, b3, b4, b5, b6, b7].length = 8 := rfl
    rw [e8] at this
    simp only [this, List.cons_append, List.nil_append, List.length_cons]
  | case2 => intro tail; rfl
  | case3 l h1 h2 =>
    have hl : l.length < 8 := by
      rcases l with _ | ⟨b0, _ | ⟨b1, _ | ⟨b2, _ | ⟨b3, _ | ⟨b4, _ | ⟨b5, _ | ⟨b6, _ | ⟨b7, rest⟩⟩⟩⟩⟩⟩⟩⟩ <;>
        first | (simp only [List.length_cons, List.length_nil]; omega) | exact absurd rfl (h1 _ _ _ _ _ _ _ _ _)
    have hpos : 0 < l.length := by
      cases l with
      | nil => exact absurd rfl h2
      | cons _ _ => simp
    intro tail
    have e1 : l.length / 8 = 0 := by omega
    have e2 : l.length % 8 = (l.length - 1) + 1 := by omega
    rw [e1, e2]
    simp only [List.cons_append, List.nil_append, unpackBits, List.length_cons, List.length_nil]
    have := bits_of_packed_byte l (by omega)
    have e3 : l.length - 1 + 1 = l.length := by omega
    rw [e3, this]

theorem rt_bits (b : List Bool) (h : Bits.ok b = true) : RT (Bits.enc b) Bits.dec b := by
  simp only [Bits.ok, decide_eq_true_eq] at h
  unfold Bits.enc Bits.dec
  exact RT.andThen (rt_count _ h) (rt_packBits b)

/-! ## ReferencesAndLatLngs -/

theorem rt_refLLsStep (p : BitVec 16) (s : MixedState) (x : RefLL) (hc : x.canonical = true) :
    RT (RefLLs.encStep p s x).1 (RefLLs.decStep p x.isRef s) (x, (RefLLs.encStep p s x).2) := by
  unfold RefLLs.encStep RefLLs.decStep
  cases hr : x.isRef
  · -- a lat/lng element: the reference half is the invalid reference
    have hinv : x.ref = Reference.invalid := by
      simpa [RefLL.isRef] using hr
    simp only [Bool.false_eq_true, if_false]
    refine (RT.map _ (rt_latlngsStep s.2 x.ll)).congr rfl ?_
    cases x; simp_all
  · -- a reference element: the lat/lng half is zero
    have hne : x.ref ≠ Reference.invalid := by
      simpa [RefLL.isRef] using hr
    have hz : x.ll = LatLng.zero := by
      simp only [RefLL.canonical, Bool.or_eq_true, beq_iff_eq] at hc
      rcases hc with h | h
      · exact absurd h hne
      · exact h
    simp only [if_true]
    refine (RT.map _ (rt_referencesStep p s.1 x.ref)).congr rfl ?_
    cases x; simp_all

theorem rt_refLLs (p : BitVec 16) (g : List RefLL) (h : RefLLs.ok g = true) (hc : ∀ x ∈ g, x.canonical = true) :
    RT (RefLLs.enc p g) (RefLLs.dec p) g := by
  obtain ⟨_, hl, _⟩ := lenOk_spec 2 g.length (by omega) h
  have hlen : g.length < 2 ^ 62 := by
    simp only [RefLLs.ok, lenOk, Bool.and_eq_true, decide_eq_true_eq] at h
    exact h.1
  unfold RefLLs.enc RefLLs.dec
  rw [List.append_assoc]
  refine RT.andThen (rt_lenHeader 2 g.length (by omega) h) ?_
  rw [hl]
  unfold RefLLs.decBody
  refine RT.andThen (rt_bits (g.map RefLL.isRef) (by simp [Bits.ok]; omega)) ?_
  rw [if_neg (by simp), List.take_of_length_le (by simp)]
  exact RT.forEach (fun x => x.canonical = true) RefLL.isRef _ _ (fun s a ha => rt_refLLsStep p s a ha) g _ hc

end B6.Model.Records
