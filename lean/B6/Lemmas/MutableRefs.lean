import B6.Lemmas.MutableCanary
/-!
The reference table of `MutableOverlayWorld` (`m.references`) is the inverse of the references of the
overlay's features, after every operation (C12 `refs_inv_step`).
-/
namespace B6.Model.Mutable

/-- `references[t]` holds exactly the overlay features whose current geometry / members / keys name `t` -/
def RefsInv (l : Layer) : Prop :=
  ∀ t s, s ∈ sources l.refs t ↔ ∃ g, AMap.get l.feats s = some g ∧ t ∈ geomRefs g.geom

theorem sources_set (rs : List (Id × List Id)) (t : Id) (v : List Id) (t' : Id) :
    sources (AMap.set rs t v) t' = if t' = t then v else sources rs t' := by
  unfold sources
  rw [AMap.get_set]
  by_cases h : t' = t <;> simp [h]

theorem refsAdd_fold (fid : Id) (ts : List Id) : ∀ (rs : List (Id × List Id)) (t s : Id),
    (s ∈ sources (ts.foldl (fun rs tgt =>
        if (sources rs tgt).contains fid then rs else AMap.set rs tgt (sources rs tgt ++ [fid])) rs) t ↔
      s ∈ sources rs t ∨ (s = fid ∧ t ∈ ts)) := by
  induction ts with
  | nil => intro rs t s; simp
  | cons a r ih =>
    intro rs t s
    simp only [List.foldl_cons, ih, List.mem_cons]
    by_cases hc : (sources rs a).contains fid = true
    · simp only [hc, ↓reduceIte]
      constructor
      · rintro (h | ⟨h1, h2⟩)
        · exact Or.inl h
        · exact Or.inr ⟨h1, Or.inr h2⟩
      · rintro (h | ⟨h1, h2 | h2⟩)
        · exact Or.inl h
        · subst h1; subst h2; exact Or.inl (by simpa using hc)
        · exact Or.inr ⟨h1, h2⟩
    · simp only [hc, Bool.false_eq_true, ↓reduceIte, sources_set]
      by_cases hta : t = a
      · subst hta
        simp only [↓reduceIte, List.mem_append, List.mem_singleton, true_or, and_true]
        constructor
        · rintro ((h | h) | ⟨h1, _⟩)
          · exact Or.inl h
          · exact Or.inr h
          · exact Or.inr h1
        · rintro (h | h)
          · exact Or.inl (Or.inl h)
          · exact Or.inl (Or.inr h)
      · simp only [hta, ↓reduceIte, false_or]

theorem mem_refsAdd (rs : List (Id × List Id)) (f : Feature) (t s : Id) :
    s ∈ sources (refsAdd rs f) t ↔ s ∈ sources rs t ∨ (s = f.id ∧ t ∈ geomRefs f.geom) :=
  refsAdd_fold f.id _ rs t s

theorem refsRemoveStep_sources (fid : Id) (rs : List (Id × List Id)) (a t : Id) :
    sources (refsRemoveStep fid rs a) t =
      if t = a then (sources rs a).filter (fun y => decide (y ≠ fid)) else sources rs t := by
  unfold refsRemoveStep
  cases h : AMap.get rs a with
  | some l =>
    simp only [sources_set]
    by_cases ht : t = a
    · simp [ht, sources, h]
    · simp [ht]
  | none =>
    by_cases ht : t = a
    · simp [ht, sources, h]
    · simp [ht]

theorem refsRemove_fold (fid : Id) (ts : List Id) : ∀ (rs : List (Id × List Id)) (t s : Id),
    (s ∈ sources (ts.foldl (refsRemoveStep fid) rs) t ↔ s ∈ sources rs t ∧ ¬ (s = fid ∧ t ∈ ts)) := by
  induction ts with
  | nil => intro rs t s; simp
  | cons a r ih =>
    intro rs t s
    simp only [List.foldl_cons, ih, refsRemoveStep_sources, List.mem_cons]
    by_cases hta : t = a
    · subst hta
      simp only [↓reduceIte, List.mem_filter, decide_eq_true_eq, true_or, and_true]
      constructor
      · rintro ⟨⟨h1, h2⟩, _⟩; exact ⟨h1, h2⟩
      · rintro ⟨h1, h2⟩; exact ⟨⟨h1, h2⟩, fun h3 => h2 h3.1⟩
    · simp only [hta, ↓reduceIte, false_or]

theorem mem_refsRemove (rs : List (Id × List Id)) (f : Feature) (t s : Id) :
    s ∈ sources (refsRemove rs f) t ↔ s ∈ sources rs t ∧ ¬ (s = f.id ∧ t ∈ geomRefs f.geom) :=
  refsRemove_fold f.id _ rs t s

/-- removing, over a list of referrers that live in the overlay, the references of each -/
theorem mem_removeReferrers (l : Layer) (rsl : List FV) : ∀ (rs : List (Id × List Id)) (t s : Id),
    (s ∈ sources (rsl.foldl (removeReferrer l) rs) t ↔
      s ∈ sources rs t ∧ ¬ ∃ r ∈ rsl, ∃ e, AMap.get l.feats r.f.id = some e ∧ s = e.id ∧ t ∈ geomRefs e.geom) := by
  induction rsl with
  | nil => intro rs t s; simp
  | cons r rest ih =>
    intro rs t s
    simp only [List.foldl_cons, ih, List.mem_cons, exists_eq_or_imp]
    unfold removeReferrer
    cases he : AMap.get l.feats r.f.id with
    | none => simp
    | some e =>
      simp only [mem_refsRemove, Option.some.injEq, exists_eq_left']
      constructor
      · rintro ⟨⟨h1, h2⟩, h3⟩
        exact ⟨h1, fun h => by rcases h with h | h; exact h2 h; exact h3 h⟩
      · rintro ⟨h1, h2⟩
        exact ⟨⟨h1, fun h => h2 (Or.inl h)⟩, fun h => h2 (Or.inr h)⟩

theorem mem_addReferrers (l : Layer) (rsl : List FV) : ∀ (rs : List (Id × List Id)) (t s : Id),
    (s ∈ sources (rsl.foldl (addReferrer l) rs) t ↔
      s ∈ sources rs t ∨ ∃ r ∈ rsl, ∃ e, AMap.get l.feats r.f.id = some e ∧ s = e.id ∧ t ∈ geomRefs e.geom) := by
  induction rsl with
  | nil => intro rs t s; simp
  | cons r rest ih =>
    intro rs t s
    simp only [List.foldl_cons, ih, List.mem_cons, exists_eq_or_imp]
    unfold addReferrer
    cases he : AMap.get l.feats r.f.id with
    | none => simp
    | some e =>
      simp only [mem_refsAdd, Option.some.injEq, exists_eq_left']
      constructor
      · rintro ((h | h) | h)
        · exact Or.inl h
        · exact Or.inr (Or.inl h)
        · exact Or.inr (Or.inr h)
      · rintro (h | h | h)
        · exact Or.inl (Or.inl h)
        · exact Or.inl (Or.inr h)
        · exact Or.inr h

theorem mem_addCopies (cs : List Feature) : ∀ (rs : List (Id × List Id)) (t s : Id),
    (s ∈ sources (cs.foldl refsAdd rs) t ↔ s ∈ sources rs t ∨ ∃ c ∈ cs, s = c.id ∧ t ∈ geomRefs c.geom) := by
  induction cs with
  | nil => intro rs t s; simp
  | cons c rest ih =>
    intro rs t s
    simp only [List.foldl_cons, ih, mem_refsAdd, List.mem_cons, exists_eq_or_imp]
    constructor
    · rintro ((h | h) | h)
      · exact Or.inl h
      · exact Or.inr (Or.inl h)
      · exact Or.inr (Or.inr h)
    · rintro (h | h | h)
      · exact Or.inl (Or.inl h)
      · exact Or.inl (Or.inr h)
      · exact Or.inr h

theorem refsInv_same {l l' : Layer} (hs : l.Same l') (h : RefsInv l) : RefsInv l' := by
  intro t s; rw [hs.refs]; simp only [hs.feats]; exact h t s

theorem refsInv_empty : RefsInv Layer.empty := by
  intro t s; simp [Layer.empty, sources]

theorem refsInv_adopt {l : Layer} {f : Feature} (h : RefsInv l) (hf : AMap.get l.feats f.id = none) :
    RefsInv (l.adopt f) := by
  intro t s
  simp only [Layer.adopt, mem_refsAdd, AMap.get_set, h t s]
  by_cases hs : s = f.id
  · subst hs; simp [hf]
  · simp [hs]

/-- a tag edit of an overlay feature: geometry and the table are untouched -/
theorem refsInv_retag {l : Layer} {id : Id} {f : Feature} {tags : List Tag} {ix : List (Token × List Id)}
    (h : RefsInv l) (hf : AMap.get l.feats id = some f) :
    RefsInv { l with index := ix, feats := AMap.set l.feats id { f with tags := tags } } := by
  intro t s
  simp only [AMap.get_set, h t s]
  by_cases hs : s = id
  · subst hs; simp [hf]
  · simp [hs]

theorem refsInv_addTag {b : View} {l l' : Layer} {id : Id} {tag : Tag} (hb : b.IdsOK) (hl : l.FeatsId)
    (hi : RefsInv l) (h : l.addTag b id tag = .ok l') : RefsInv l' := by
  unfold Layer.addTag at h
  cases hf : AMap.get l.feats id with
  | some f => simp only [hf, Except.ok.injEq] at h; subst h; exact refsInv_retag hi hf
  | none =>
    simp only [hf] at h
    cases hv : l.find b id with
    | none => simp [hv] at h
    | some fv =>
      simp only [hv] at h
      have hfid : fv.f.id = id := view_idsOK hb hl (l.loc b) id fv (by rw [find_view]; exact hv)
      split at h
      · cases h; exact refsInv_adopt hi (by simp only [hfid]; exact hf)
      · cases h; exact hi

theorem refsInv_removeTag {b : View} {l l' : Layer} {id : Id} {key : Key} (hb : b.IdsOK) (hl : l.FeatsId)
    (hi : RefsInv l) (h : l.removeTag b id key = .ok l') : RefsInv l' := by
  unfold Layer.removeTag at h
  cases hf : AMap.get l.feats id with
  | some f => simp only [hf, Except.ok.injEq] at h; subst h; exact refsInv_retag hi hf
  | none =>
    simp only [hf] at h
    cases hv : l.find b id with
    | none => simp [hv] at h
    | some fv =>
      simp only [hv] at h
      have hfid : fv.f.id = id := view_idsOK hb hl (l.loc b) id fv (by rw [find_view]; exact hv)
      split at h
      · cases h; exact hi
      · split at h
        · cases h; exact refsInv_adopt hi (by simp only [hfid]; exact hf)
        · cases h; exact hi

/-- `NewModifiedFeaturesWithCopies` + `Update` keep the table the inverse of the overlay's references -/
theorem refsInv_commit {l : Layer} {f : Feature} {rs : List FV} (hl : l.FeatsId) (hi : RefsInv l) :
    RefsInv (l.commit f rs) := by
  have hc := copy_fold f.id rs (l, [])
  obtain ⟨news, hn1, hn2, hn3⟩ := copy_fold2 f.id rs (l, [])
  simp only [List.nil_append] at hn1 hc hn2 hn3
  have hrefs : (copyReferrers f.id l rs).1.refs = l.refs := hc.1.2.2.1
  have hcopies : (copyReferrers f.id l rs).2 = news := hn1
  intro t s
  -- the referrers that already live in the overlay (never the new feature itself)
  have hin : ∀ r ∈ rs.filter (fun r => AMap.contains l.feats r.f.id && r.f.id != f.id),
      ∀ e, AMap.get l.feats r.f.id = some e → e.id ≠ f.id := by
    intro r hr e he
    have := (List.mem_filter.1 hr).2
    simp only [Bool.and_eq_true, bne_iff_ne, ne_eq] at this
    rw [hl _ _ he]; exact this.2
  simp only [Layer.commit, hrefs, hcopies, mem_addCopies, mem_addReferrers, mem_refsAdd, mem_removeReferrers,
    AMap.get_set]
  -- what the table said about `s` before
  have hold := hi t s
  by_cases hsf : s = f.id
  · subst hsf
    simp only [↓reduceIte, Option.some.injEq, exists_eq_left']
    have hnocopy : ¬ ∃ c ∈ news, f.id = c.id ∧ t ∈ geomRefs c.geom := by
      rintro ⟨c, hc', he, _⟩; exact (hn2 c hc').2.2 he.symm
    have hnoin : ¬ ∃ r ∈ rs.filter (fun r => AMap.contains l.feats r.f.id && r.f.id != f.id),
        ∃ e, AMap.get l.feats r.f.id = some e ∧ f.id = e.id ∧ t ∈ geomRefs e.geom := by
      rintro ⟨r, hr, e, he, hid, _⟩; exact hin r hr e he hid.symm
    have hgone : ¬ ((match AMap.get l.feats f.id with
        | some e => f.id ∈ sources (refsRemove l.refs e) t
        | none => f.id ∈ sources l.refs t)) := by
      cases he : AMap.get l.feats f.id with
      | some e =>
        simp only [mem_refsRemove, hold, he, Option.some.injEq, exists_eq_left']
        rintro ⟨h1, h2⟩; exact h2 ⟨(hl _ _ he).symm, h1⟩
      | none => simp only [hold, he]; rintro ⟨g, hg, _⟩; cases hg
    constructor
    · rintro (((h | h) | h) | h)
      · exfalso
        apply hgone
        cases he : AMap.get l.feats f.id with
        | some e => simp only [he] at h ⊢; exact h.1
        | none => simp only [he] at h ⊢; exact h.1
      · exact h.2
      · exact absurd h hnoin
      · exact absurd h hnocopy
    · intro h; exact Or.inl (Or.inl (Or.inr ⟨trivial, h⟩))
  · simp only [hsf, ↓reduceIte, false_and, or_false]
    -- the table entry of `s` after removing the existing feature's references: unchanged
    have hkeep : (match AMap.get l.feats f.id with
        | some e => s ∈ sources (refsRemove l.refs e) t
        | none => s ∈ sources l.refs t) ↔ s ∈ sources l.refs t := by
      cases he : AMap.get l.feats f.id with
      | some e =>
        simp only [mem_refsRemove]
        constructor
        · exact fun h => h.1
        · exact fun h => ⟨h, fun h2 => hsf (by rw [h2.1, hl _ _ he])⟩
      | none => exact Iff.rfl
    constructor
    · rintro ((⟨h1, h2⟩ | ⟨r, hr, e, he, hse, hte⟩) | ⟨c, hc', hsc, htc⟩)
      · have h1' : s ∈ sources l.refs t := by
          cases he : AMap.get l.feats f.id with
          | some e => simp only [he] at h1; exact ((mem_refsRemove _ _ _ _).1 h1).1
          | none => simp only [he] at h1; exact h1
        obtain ⟨g, hg, htg⟩ := (hold).1 h1'
        exact ⟨g, hc.2.1 s g hg, htg⟩
      · have : e.id = r.f.id := hl _ _ he
        exact ⟨e, hc.2.1 s e (by rw [hse, this]; exact he), hte⟩
      · exact ⟨c, by rw [hsc]; exact (hn2 c hc').1, htc⟩
    · rintro ⟨g, hg, htg⟩
      rcases hc.2.2 s g hg with h | ⟨h1, _, r, _, _, h4⟩
      · -- an old overlay feature: either one of the re-added referrers, or untouched
        by_cases hre : ∃ r ∈ rs.filter (fun r => AMap.contains l.feats r.f.id && r.f.id != f.id),
            ∃ e, AMap.get l.feats r.f.id = some e ∧ s = e.id ∧ t ∈ geomRefs e.geom
        · exact Or.inl (Or.inr hre)
        · refine Or.inl (Or.inl ⟨?_, hre⟩)
          have : s ∈ sources l.refs t := (hold).2 ⟨g, h, htg⟩
          cases he : AMap.get l.feats f.id with
          | some e => simp only [he]; exact (mem_refsRemove _ _ _ _).2 ⟨this, fun h2 => hsf (by rw [h2.1, hl _ _ he])⟩
          | none => simp only [he]; exact this
      · exact Or.inr ⟨g, hn3 s g hg h1, h4.symm, htg⟩

theorem refsInv_addFeature {b : View} {o : Oracle} {l l' : Layer} {f : Feature} {r : Option Err}
    (hl : l.FeatsId) (hi : RefsInv l) (h : l.addFeature b o f = (l', r)) : RefsInv l' := by
  rw [addFeature_eq] at h
  split at h
  · cases h; exact hi
  · split at h
    · cases h; exact refsInv_commit hl hi
    · have hs := checkReferrers_same b o l f (l.referrers b f.id)
      split at h
      · cases h; exact refsInv_same hs hi
      · cases h; exact refsInv_commit (featsId_same hs hl) (refsInv_same hs hi)

theorem refsInv_prim {b : View} {o : Oracle} {l : Layer} (p : Prim) (hb : b.IdsOK) (hl : l.FeatsId)
    (hi : RefsInv l) : RefsInv (p.apply b o l).1 ∧ (p.apply b o l).1.FeatsId := by
  cases p with
  | feat f =>
    have e : l.addFeature b o f = ((l.addFeature b o f).1, (l.addFeature b o f).2) := rfl
    exact ⟨refsInv_addFeature hl hi e, featsId_addFeature hl e⟩
  | tag id t =>
    simp only [Prim.apply]
    cases hs : l.addTag b id t with
    | ok l' => exact ⟨refsInv_addTag hb hl hi hs, featsId_addTag hl hs⟩
    | error e => exact ⟨hi, hl⟩
  | untag id k =>
    simp only [Prim.apply]
    cases hs : l.removeTag b id k with
    | ok l' => exact ⟨refsInv_removeTag hb hl hi hs, featsId_removeTag hl hs⟩
    | error e => exact ⟨hi, hl⟩

theorem refsInv_prims {b : View} {o : Oracle} (hb : b.IdsOK) (ps : List Prim) : ∀ (l : Layer), l.FeatsId → RefsInv l →
    RefsInv (applyPrims b o l ps).1 ∧ (applyPrims b o l ps).1.FeatsId := by
  induction ps with
  | nil => intro l hl hi; exact ⟨hi, hl⟩
  | cons p rest ih =>
    intro l hl hi
    obtain ⟨h1, h2⟩ := refsInv_prim (o := o) p hb hl hi
    simp only [applyPrims]
    cases hp : p.apply b o l with
    | mk l1 r1 =>
      rw [hp] at h1 h2
      cases r1 with
      | none => exact ih l1 h2 h1
      | some e => exact ⟨h1, h2⟩

theorem refsInv_step {b : View} {o : Oracle} {l l' : Layer} {op : Op} {r : Option Err}
    (hb : b.IdsOK) (hl : l.FeatsId) (hi : RefsInv l) (h : l.step b o op = (l', r)) : RefsInv l' ∧ l'.FeatsId := by
  cases op with
  | addFeature f => exact ⟨refsInv_addFeature hl hi h, featsId_addFeature hl h⟩
  | addTag id t =>
    simp only [Layer.step] at h
    cases hs : l.addTag b id t with
    | ok l1 => rw [hs] at h; cases h; exact ⟨refsInv_addTag hb hl hi hs, featsId_addTag hl hs⟩
    | error e => rw [hs] at h; cases h; exact ⟨hi, hl⟩
  | removeTag id k =>
    simp only [Layer.step] at h
    cases hs : l.removeTag b id k with
    | ok l1 => rw [hs] at h; cases h; exact ⟨refsInv_removeTag hb hl hi hs, featsId_removeTag hl hs⟩
    | error e => rw [hs] at h; cases h; exact ⟨hi, hl⟩
  | merged cs =>
    simp only [Layer.step] at h
    have hall := refsInv_prims (o := o) hb (cs.flatMap Change.prims) l hl hi
    rw [← applyAll_eq_prims] at hall
    rcases mergedApply_cases b o l cs with ⟨e, _, he, _⟩ | ⟨l1, h1, h2⟩ | ⟨l1, e, h1, h2, _⟩
    · rw [he] at h; cases h; exact ⟨hi, hl⟩
    · rw [h1] at h; cases h; rw [h2] at hall; exact hall
    · rw [h1] at h; cases h; rw [h2] at hall; exact hall

theorem refsInv_runOps {b : View} {o : Oracle} (hb : b.IdsOK) (ops : List Op) : ∀ (l : Layer), l.FeatsId → RefsInv l →
    RefsInv (runOps b o l ops).1 := by
  induction ops with
  | nil => intro l _ hi; exact hi
  | cons op rest ih =>
    intro l hl hi
    simp only [runOps]
    obtain ⟨h1, h2⟩ := refsInv_step (o := o) (op := op) hb hl hi rfl
    exact ih _ h2 h1

end B6.Model.Mutable
