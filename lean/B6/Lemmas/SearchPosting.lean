import B6.Props.C08
import B6.Lemmas.SearchUnion
import B6.Lemmas.SearchInter
/-!
# The compact posting-list iterator as a leaf of the search algebra (C06 over C08)

`postingOps tbl` packages C08's byte-level model of `compact.Iterator` (`B6.Model.Posting.next/advance/cur`) as an
`IterOps` on states `(posting list, iterator)`, with values and keys read as the naturals
`TypeAndNamespace * 2^64 + value` (`keyNat`) and the key domain `dom k` = "the namespace of `k` is in the file's
namespace table" (`nt.Encode` panics on any other).  `posting_refines` turns C08's `next_spec` / `advance_spec`
into `Refines`, so that every combinator theorem of C06 (`union_refines`, `intersection_refines`,
`keyRange_refines`) applies to trees whose leaves are compact posting lists of one file.
-/
namespace B6.Lemmas.Search
open B6.Spec.Cursor B6.Model.Posting B6.Model.Search
open B6.Model.Varint (Bytes)

def liftPostingErr : B6.Model.Posting.Err → B6.Spec.Cursor.Err
  | .panic => .panic
  | .corrupt => .panic
  | .fuel => .fuel

def liftPosting (pl : PostingList) (r : Except B6.Model.Posting.Err (Bool × It)) : Res (PostingList × It) :=
  match r with
  | .ok p => .ok (p.1, (pl, p.2))
  | .error e => .error (liftPostingErr e)

/-- `compact.Iterator`s over the posting lists of a file whose namespace table is `tbl` -/
def postingOps (tbl : Table) : IterOps (PostingList × It) where
  next s := liftPosting s.1 (B6.Model.Posting.next s.1 s.2)
  advance k s := liftPosting s.1 (B6.Model.Posting.advance s.1 tbl (keyOf tbl (k / 2 ^ 64, k % 2 ^ 64)) s.2)
  value s := B6.Props.C08.curKey s.1 s.2
  estimate s := (s.1.ids.length - s.2.i) / 3
  dom k := TnOK tbl (k / 2 ^ 64)

/-- the iterator is in the state reached after reading exactly `done`, and the cursor has consumed `done` -/
def PostingRel (tbl : Table) (s : PostingList × It) (c : Cursor) : Prop :=
  ∃ ids done rest, Ctx s.1 tbl ids ∧ Canon s.1 ids s.2 done rest ∧ c = B6.Props.C08.cursorOf done rest

theorem cursorOf_wf {pl : PostingList} {tbl : Table} {ids : List Id} (ctx : Ctx pl tbl ids) {it : It}
    {done rest : List Id} (hc : Canon pl ids it done rest) : (B6.Props.C08.cursorOf done rest).WF := by
  unfold Cursor.WF Cursor.xs B6.Props.C08.cursorOf
  simp only [← List.map_append, ← hc.split]
  unfold StrictSorted
  rw [List.pairwise_map]
  exact ctx.sorted.imp_of_mem (fun {a b} ha hb hab =>
    (B6.Props.C08.keyNat_lt (ctx.valid a ha).1 (ctx.valid b hb).1).2 hab)

theorem posting_simulation (tbl : Table) : Simulation (postingOps tbl) (PostingRel tbl) where
  wf s c h := by
    obtain ⟨ids, done, rest, ctx, hc, rfl⟩ := h
    exact cursorOf_wf ctx hc
  value s c h hcur := by
    obtain ⟨ids, done, rest, ctx, hc, rfl⟩ := h
    obtain ⟨x, hx⟩ := Option.isSome_iff_exists.1 hcur
    show B6.Props.C08.curKey s.1 s.2 = _
    rw [hx]; exact B6.Props.C08.curKey_canon hc x hx
  next s c h := by
    obtain ⟨ids, done, rest, ctx, hc, rfl⟩ := h
    obtain ⟨it', h1, h2⟩ := B6.Props.C08.next_spec ctx hc
    refine ⟨(s.1, it'), by show liftPosting _ _ = _; rw [h1]; rfl, fun hb => ?_⟩
    obtain ⟨done', rest', hc', heq⟩ := h2 hb
    exact ⟨ids, done', rest', ctx, hc', heq⟩
  advance k s c h hk := by
    obtain ⟨ids, done, rest, ctx, hc, rfl⟩ := h
    have hTv : k % 2 ^ 64 < 2 ^ 64 := Nat.mod_lt _ (by omega)
    have hkey : keyNat (k / 2 ^ 64, k % 2 ^ 64) = k := by unfold keyNat; simp only; omega
    obtain ⟨it', h1, h2⟩ := B6.Props.C08.advance_spec ctx hc (k / 2 ^ 64, k % 2 ^ 64) hk hTv
    rw [hkey] at h1 h2
    refine ⟨(s.1, it'), by show liftPosting _ _ = _; rw [h1]; rfl, fun hb => ?_⟩
    obtain ⟨done', rest', hc', heq⟩ := h2 hb
    exact ⟨ids, done', rest', ctx, hc', heq⟩

/-- the conditions under which C08 speaks about a posting list of a file with table `tbl` -/
def PostingOK (tbl : Table) (ids : List Id) : Prop :=
  ValidIds ids ∧ SortedIds ids ∧ ∀ id ∈ ids, TnOK tbl id.1

/-- **posting_refines.** The compact iterator over the posting list that `PostingList.Fill` builds from any valid,
strictly increasing id list refines the spec cursor over the ids' keys — for every sequence of `Next` /
`Advance(k)` with the namespace of `k` in the table. -/
theorem posting_refines (token : Bytes) (ids : List Id) (tbl : Table) (ht : TableOK tbl) (hok : PostingOK tbl ids) :
    Refines (postingOps tbl) (fill token ids, It.start) (ids.map keyNat) := by
  have ctx := B6.Props.C08.ctx_fill token ids tbl hok.1 hok.2.1 ht hok.2.2
  exact ⟨PostingRel tbl, posting_simulation tbl, ids, [], ids, ctx, canon_start ctx, rfl⟩

/-- every key of the list is in the domain (so intersections may leapfrog on them) -/
theorem posting_keys_in_dom (ids : List Id) (tbl : Table) (hok : PostingOK tbl ids) :
    ∀ x ∈ ids.map keyNat, (postingOps tbl).dom x := by
  intro x hx
  obtain ⟨id, hid, rfl⟩ := List.mem_map.1 hx
  show TnOK tbl (keyNat id / 2 ^ 64)
  have hlt := (hok.1 id hid).1
  have : keyNat id / 2 ^ 64 = id.1 := by unfold keyNat; omega
  rw [this]; exact hok.2.2 id hid

/-- `union` (and `tokenPrefix`, which is a union) over compact posting lists of one file -/
theorem union_of_postings (tbl : Table) (ht : TableOK tbl) (ps : List (Bytes × List Id))
    (hok : ∀ p ∈ ps, PostingOK tbl p.2) (ys : List Nat) (hys : StrictSorted ys)
    (hmem : ∀ x, x ∈ ys ↔ ∃ p ∈ ps, x ∈ p.2.map keyNat) :
    Refines (Union.ops (postingOps tbl)) (.fresh (ps.map fun p => (fill p.1 p.2, It.start))) ys := by
  have := union_refines (postingOps tbl) (ps.map fun p => ((fill p.1 p.2, It.start), p.2.map keyNat)) ys
    (by
      intro q hq
      obtain ⟨p, hp, rfl⟩ := List.mem_map.1 hq
      exact posting_refines p.1 p.2 tbl ht (hok p hp))
    hys
    (by
      intro x; rw [hmem]
      constructor
      · rintro ⟨p, hp, hx⟩; exact ⟨_, List.mem_map.2 ⟨p, hp, rfl⟩, hx⟩
      · rintro ⟨q, hq, hx⟩
        obtain ⟨p, hp, rfl⟩ := List.mem_map.1 hq
        exact ⟨p, hp, hx⟩)
  rw [List.map_map] at this
  exact this

/-- `intersection` over compact posting lists of one file (leapfrogging on the lists' own keys stays inside the key
domain) -/
theorem inter_of_postings (tbl : Table) (ht : TableOK tbl) (fuel : Nat) (ps : List (Bytes × List Id))
    (hne : ps ≠ []) (hok : ∀ p ∈ ps, PostingOK tbl p.2 ∧ p.2.length < fuel) (ys : List Nat)
    (hys : StrictSorted ys) (hmem : ∀ x, x ∈ ys ↔ ∀ p ∈ ps, x ∈ p.2.map keyNat) :
    Refines (Inter.ops (postingOps tbl) fuel)
      (Inter.new (postingOps tbl) (ps.map fun p => (fill p.1 p.2, It.start))) ys := by
  have := inter_refines (postingOps tbl) fuel (postingOps tbl).estimate
    (ps.map fun p => ((fill p.1 p.2, It.start), p.2.map keyNat)) ys
    (by simpa using hne)
    (by
      intro q hq
      obtain ⟨p, hp, rfl⟩ := List.mem_map.1 hq
      exact ⟨posting_refines p.1 p.2 tbl ht (hok p hp).1, by simpa using (hok p hp).2⟩)
    hys
    (by
      intro x; rw [hmem]
      constructor
      · intro h q hq
        obtain ⟨p, hp, rfl⟩ := List.mem_map.1 hq
        exact h p hp
      · intro h p hp
        exact h _ (List.mem_map.2 ⟨p, hp, rfl⟩))
    (by
      intro q hq
      obtain ⟨p, hp, rfl⟩ := List.mem_map.1 hq
      exact posting_keys_in_dom p.2 tbl (hok p hp).1)
  unfold Inter.new
  rw [List.map_map] at this
  exact this

end B6.Lemmas.Search
