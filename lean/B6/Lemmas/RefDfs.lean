import B6.Lemmas.RefIndex
/-!
Termination and correctness of the explicit-stack `dfs` (the repaired `findReferences`) — C15.
-/
namespace B6.Lemmas.RefDfs
open B6.Model.RefIndex B6.Spec.Referrers B6.Lemmas.RefIndex

/-- reachability through the index: `s` is recorded as referencing `id`, or something reachable. -/
inductive ReachE (ix : Index) (id : Id) : Id → Prop where
  | direct {s} : s ∈ srcs ix id → ReachE ix id s
  | step {t s} : ReachE ix id t → s ∈ srcs ix t → ReachE ix id s

/-! ## termination -/

def allKeys (ix : Index) : List Key := ix.flatMap fun p => p.2.map (keyOf p.1)

theorem allKeys_length (ix : Index) : (allKeys ix).length = size ix := by
  induction ix with
  | nil => rfl
  | cons p rest ih =>
    obtain ⟨k, v⟩ := p
    simp only [allKeys, List.flatMap_cons, List.length_append, List.length_map, size] at ih ⊢
    omega

theorem mem_size_le {ix : Index} {t : Id} {rs : List Ref} (h : (t, rs) ∈ ix) : rs.length ≤ size ix := by
  induction ix with
  | nil => cases h
  | cons p rest ih =>
    obtain ⟨k, v⟩ := p
    simp only [size]
    rcases List.mem_cons.mp h with h | h
    · injection h with h1 h2; subst h2; omega
    · have := ih h; omega

theorem entries_length_le (ix : Index) (t : Id) : (entries ix t).length ≤ size ix := by
  unfold entries
  cases h : lookup ix t with
  | none => simp
  | some rs => exact mem_size_le (lookup_mem h)

theorem key_mem_allKeys {ix : Index} {t : Id} {r : Ref} (h : r ∈ entries ix t) : keyOf t r ∈ allKeys ix := by
  unfold entries at h
  cases hl : lookup ix t with
  | none => simp [hl] at h
  | some rs =>
    simp only [hl] at h
    simp only [allKeys, List.mem_flatMap, List.mem_map]
    exact ⟨(t, rs), lookup_mem hl, r, h, rfl⟩

/-- number of keys of the index not yet visited -/
def unv (ix : Index) (vis : List Key) : Nat := ((allKeys ix).filter fun k => decide (k ∉ vis)).length

theorem filter_le (p q : Key → Bool) (h : ∀ x, q x = true → p x = true) (l : List Key) :
    (l.filter q).length ≤ (l.filter p).length := by
  induction l with
  | nil => simp
  | cons a l ih =>
    simp only [List.filter_cons]
    by_cases hq : q a = true
    · have hp := h a hq
      rw [if_pos hq, if_pos hp]; simp only [List.length_cons]; omega
    · rw [if_neg hq]
      by_cases hp : p a = true
      · rw [if_pos hp]; simp only [List.length_cons]; omega
      · rw [if_neg hp]; exact ih

theorem filter_lt (p q : Key → Bool) (h : ∀ x, q x = true → p x = true) (k : Key) (hp : p k = true)
    (hq : ¬ q k = true) (l : List Key) (hk : k ∈ l) : (l.filter q).length < (l.filter p).length := by
  induction l with
  | nil => cases hk
  | cons a l ih =>
    simp only [List.filter_cons]
    by_cases hak : a = k
    · subst hak
      rw [if_neg hq, if_pos hp]; simp only [List.length_cons]
      have := filter_le p q h l
      omega
    · have hk' : k ∈ l := by
        rcases List.mem_cons.mp hk with h | h
        · exact absurd h.symm hak
        · exact h
      have := ih hk'
      by_cases hqa : q a = true
      · rw [if_pos hqa, if_pos (h a hqa)]; simp only [List.length_cons]; omega
      · rw [if_neg hqa]
        by_cases hpa : p a = true
        · rw [if_pos hpa]; simp only [List.length_cons]; omega
        · rw [if_neg hpa]; exact this

theorem filter_drop_lt (l : List Key) (vis : List Key) (k : Key) (hk : k ∈ l) (hv : k ∉ vis) :
    (l.filter fun x => decide (x ∉ k :: vis)).length < (l.filter fun x => decide (x ∉ vis)).length := by
  apply filter_lt (fun x => decide (x ∉ vis)) (fun x => decide (x ∉ k :: vis)) _ k _ _ l hk
  · intro x hx
    simp only [decide_eq_true_eq] at hx ⊢
    exact fun hm => hx (List.mem_cons_of_mem _ hm)
  · simpa using hv
  · simp

theorem unv_lt {ix : Index} {vis : List Key} {k : Key} (hk : k ∈ allKeys ix) (hv : k ∉ vis) :
    unv ix (k :: vis) < unv ix vis := filter_drop_lt _ _ _ hk hv

theorem unv_le_size (ix : Index) (vis : List Key) : unv ix vis ≤ size ix := by
  unfold unv
  rw [← allKeys_length]
  exact List.length_filter_le _ _

theorem dfs_fuel (ix : Index) : ∀ (fuel : Nat) (stack : List (Id × Ref)) (vis : List Key),
    (∀ p ∈ stack, p.2 ∈ entries ix p.1) →
    stack.length + unv ix vis * (size ix + 1) ≤ fuel →
    ∃ ks, dfs ix fuel stack vis = some ks := by
  intro fuel
  induction fuel with
  | zero =>
    intro stack vis _ hle
    cases stack with
    | nil => exact ⟨vis, rfl⟩
    | cons p rest => simp at hle
  | succ fuel ih =>
    intro stack vis hst hle
    cases stack with
    | nil => exact ⟨vis, rfl⟩
    | cons p rest =>
      obtain ⟨t, r⟩ := p
      simp only [dfs]
      have hrest : ∀ p ∈ rest, p.2 ∈ entries ix p.1 := fun p hp => hst p (List.mem_cons_of_mem _ hp)
      by_cases hv : keyOf t r ∈ vis
      · simp only [hv, ↓reduceIte]
        apply ih _ _ hrest
        simp only [List.length_cons] at hle
        omega
      · simp only [hv, ↓reduceIte]
        have hr : r ∈ entries ix t := hst (t, r) List.mem_cons_self
        have hlt := unv_lt (key_mem_allKeys hr) hv
        apply ih
        · intro p hp
          rcases List.mem_append.mp hp with hp | hp
          · simp only [work, List.mem_map] at hp
            obtain ⟨r', hr', rfl⟩ := hp
            exact hr'
          · exact hrest p hp
        · have hw : (work ix r.src).length ≤ size ix := by
            simp only [work, List.length_map]; exact entries_length_le ix r.src
          have hmul : unv ix (keyOf t r :: vis) * (size ix + 1) + (size ix + 1) ≤ unv ix vis * (size ix + 1) := by
            have : (unv ix (keyOf t r :: vis) + 1) * (size ix + 1) ≤ unv ix vis * (size ix + 1) :=
              Nat.mul_le_mul_right _ hlt
            rw [Nat.add_mul, Nat.one_mul] at this
            exact this
          simp only [List.length_cons, List.length_append] at hle ⊢
          omega

theorem dfs_terminates (ix : Index) (id : Id) : ∃ ks, dfs ix (fuelFor ix) (work ix id) [] = some ks := by
  apply dfs_fuel
  · intro p hp
    simp only [work, List.mem_map] at hp
    obtain ⟨r, hr, rfl⟩ := hp
    exact hr
  · have h1 : (work ix id).length ≤ size ix := by
      simp only [work, List.length_map]; exact entries_length_le ix id
    have h2 := unv_le_size ix []
    have h3 : unv ix [] * (size ix + 1) ≤ size ix * (size ix + 1) := Nat.mul_le_mul_right _ h2
    unfold fuelFor
    have : (size ix + 1) * (size ix + 1) = size ix * (size ix + 1) + (size ix + 1) := by
      rw [Nat.add_mul, Nat.one_mul]
    omega

/-! ## soundness -/

theorem keyOf_src (t : Id) (r : Ref) : (keyOf t r).src = r.src := by
  unfold keyOf; split <;> rfl

theorem mem_srcs_of_mem {ix : Index} {t : Id} {r : Ref} (h : r ∈ entries ix t) : r.src ∈ srcs ix t :=
  List.mem_map.mpr ⟨r, h, rfl⟩

theorem dfs_sound (ix : Index) (id : Id) : ∀ (fuel : Nat) (stack : List (Id × Ref)) (vis ks : List Key),
    (∀ k ∈ vis, ReachE ix id k.src) →
    (∀ p ∈ stack, p.2 ∈ entries ix p.1 ∧ (p.1 = id ∨ ReachE ix id p.1)) →
    dfs ix fuel stack vis = some ks → ∀ k ∈ ks, ReachE ix id k.src := by
  intro fuel
  induction fuel with
  | zero =>
    intro stack vis ks hv _ h
    cases stack with
    | nil => simp only [dfs] at h; injection h with h; subst h; exact hv
    | cons p rest => simp [dfs] at h
  | succ fuel ih =>
    intro stack vis ks hv hst h
    cases stack with
    | nil => simp only [dfs] at h; injection h with h; subst h; exact hv
    | cons p rest =>
      obtain ⟨t, r⟩ := p
      simp only [dfs] at h
      have hrest : ∀ p ∈ rest, p.2 ∈ entries ix p.1 ∧ (p.1 = id ∨ ReachE ix id p.1) :=
        fun p hp => hst p (List.mem_cons_of_mem _ hp)
      obtain ⟨hr, ht⟩ := hst (t, r) List.mem_cons_self
      have hreach : ReachE ix id r.src := by
        rcases ht with ht | ht
        · simp only at ht; subst ht; exact .direct (mem_srcs_of_mem hr)
        · exact .step ht (mem_srcs_of_mem hr)
      by_cases hvis : keyOf t r ∈ vis
      · simp only [hvis, ↓reduceIte] at h
        exact ih _ _ _ hv hrest h
      · simp only [hvis, ↓reduceIte] at h
        apply ih _ _ _ _ _ h
        · intro k hk
          rcases List.mem_cons.mp hk with rfl | hk
          · rw [keyOf_src]; exact hreach
          · exact hv k hk
        · intro p hp
          rcases List.mem_append.mp hp with hp | hp
          · simp only [work, List.mem_map] at hp
            obtain ⟨r', hr', rfl⟩ := hp
            exact ⟨hr', Or.inr hreach⟩
          · exact hrest p hp

/-! ## completeness -/

/-- every entry of `id` and of every visited source is visited or still on the stack -/
def Closed (ix : Index) (id : Id) (stack : List (Id × Ref)) (vis : List Key) : Prop :=
  (∀ r ∈ entries ix id, keyOf id r ∈ vis ∨ (id, r) ∈ stack) ∧
  (∀ k ∈ vis, ∀ r ∈ entries ix k.src, keyOf k.src r ∈ vis ∨ (k.src, r) ∈ stack)

theorem dfs_closed (ix : Index) (id : Id) : ∀ (fuel : Nat) (stack : List (Id × Ref)) (vis ks : List Key),
    Closed ix id stack vis → dfs ix fuel stack vis = some ks → Closed ix id [] ks := by
  intro fuel
  induction fuel with
  | zero =>
    intro stack vis ks hc h
    cases stack with
    | nil => simp only [dfs] at h; injection h with h; subst h; exact hc
    | cons p rest => simp [dfs] at h
  | succ fuel ih =>
    intro stack vis ks hc h
    cases stack with
    | nil => simp only [dfs] at h; injection h with h; subst h; exact hc
    | cons p rest =>
      obtain ⟨t, r⟩ := p
      simp only [dfs] at h
      by_cases hvis : keyOf t r ∈ vis
      · simp only [hvis, ↓reduceIte] at h
        apply ih _ _ _ _ h
        constructor
        · intro r' hr'
          rcases hc.1 r' hr' with h1 | h1
          · exact Or.inl h1
          · rcases List.mem_cons.mp h1 with h2 | h2
            · injection h2 with ha hb; subst ha; subst hb; exact Or.inl hvis
            · exact Or.inr h2
        · intro k hk r' hr'
          rcases hc.2 k hk r' hr' with h1 | h1
          · exact Or.inl h1
          · rcases List.mem_cons.mp h1 with h2 | h2
            · injection h2 with ha hb; rw [ha, hb]; exact Or.inl hvis
            · exact Or.inr h2
      · simp only [hvis, ↓reduceIte] at h
        apply ih _ _ _ _ h
        constructor
        · intro r' hr'
          rcases hc.1 r' hr' with h1 | h1
          · exact Or.inl (List.mem_cons_of_mem _ h1)
          · rcases List.mem_cons.mp h1 with h2 | h2
            · injection h2 with ha hb; subst ha; subst hb; exact Or.inl List.mem_cons_self
            · exact Or.inr (List.mem_append_right _ h2)
        · intro k hk r' hr'
          rcases List.mem_cons.mp hk with rfl | hk
          · rw [keyOf_src] at hr' ⊢
            refine Or.inr (List.mem_append_left _ ?_)
            simp only [work, List.mem_map]
            exact ⟨r', hr', rfl⟩
          · rcases hc.2 k hk r' hr' with h1 | h1
            · exact Or.inl (List.mem_cons_of_mem _ h1)
            · rcases List.mem_cons.mp h1 with h2 | h2
              · injection h2 with ha hb; rw [ha, hb]; exact Or.inl List.mem_cons_self
              · exact Or.inr (List.mem_append_right _ h2)

theorem closed_complete {ix : Index} {id : Id} {ks : List Key} (hc : Closed ix id [] ks) :
    ∀ s, ReachE ix id s → ∃ k ∈ ks, k.src = s := by
  intro s hr
  induction hr with
  | direct hs =>
    obtain ⟨r, hr, rfl⟩ := List.mem_map.mp hs
    rcases hc.1 r hr with h | h
    · exact ⟨_, h, keyOf_src _ _⟩
    · cases h
  | step _ hs ih =>
    obtain ⟨k, hk, rfl⟩ := ih
    obtain ⟨r, hr, rfl⟩ := List.mem_map.mp hs
    rcases hc.2 k hk r hr with h | h
    · exact ⟨_, h, keyOf_src _ _⟩
    · cases h

/-- `FeatureReferencesByID.FindReferences` terminates and returns exactly the sources reachable
through the index, restricted to the requested types. -/
theorem findReferences_spec (ix : Index) (id : Id) (typed : List Nat) :
    ∃ L, findReferences ix id typed = some L ∧ ∀ s, s ∈ L ↔ (ReachE ix id s ∧ typeOk typed s = true) := by
  obtain ⟨ks, hks⟩ := dfs_terminates ix id
  refine ⟨(ks.map Key.src).filter (typeOk typed), by simp [findReferences, hks], ?_⟩
  intro s
  have hsound := dfs_sound ix id _ _ [] ks (by simp) (by
    intro p hp
    simp only [work, List.mem_map] at hp
    obtain ⟨r, hr, rfl⟩ := hp
    exact ⟨hr, Or.inl rfl⟩) hks
  have hclosed := dfs_closed ix id _ _ [] ks (by
    constructor
    · intro r hr
      refine Or.inr ?_
      simp only [work, List.mem_map]
      exact ⟨r, hr, rfl⟩
    · simp) hks
  simp only [List.mem_filter, List.mem_map]
  constructor
  · rintro ⟨⟨k, hk, rfl⟩, ht⟩
    exact ⟨hsound k hk, ht⟩
  · rintro ⟨hr, ht⟩
    obtain ⟨k, hk, he⟩ := closed_complete hclosed s hr
    exact ⟨⟨k, hk, he⟩, ht⟩

/-! ## from the index to the feature set -/

theorem reachE_iff_reachPlus {ix : Index} {fs : List Feature} (hi : Inv ix fs) (id s : Id) :
    ReachE ix id s ↔ ReachPlus fs id s := by
  constructor
  · intro h
    induction h with
    | direct hs => exact .direct ((hi.1 _ _).mp hs)
    | step _ hs ih => exact .step ih ((hi.1 _ _).mp hs)
  · intro h
    induction h with
    | direct hs => exact .direct ((hi.1 _ _).mpr hs)
    | step _ hs ih => exact .step ih ((hi.1 _ _).mpr hs)

end B6.Lemmas.RefDfs
