import B6.Model.OsmRings
/-!
Lemmas about the ring stitching model (`B6/Model/OsmRings.lean`) for `B6/Props/C29.lean`.
-/
namespace B6.Lemmas.OsmRings
open B6.Model.Pbf (Fail)
open B6.Model.OsmRings

theorem mem_incident {ws : List Way} {ms : List Int64} {v x : Int64} (h : x ∈ incident ws ms v) : x ∈ ms := by
  unfold incident at h
  obtain ⟨id, hid, hx⟩ := List.mem_flatMap.mp h
  split at hx
  · rename_i a b _
    simp only [List.mem_append] at hx
    rcases hx with hx | hx <;> (split at hx <;> simp_all)
  · cases hx

/-- one run of the inner loop: the loop grows by the current way and by ways that were not seen before, each
once; exactly those are marked seen -/
theorem follow_spec {ws : List Way} {ms : List Int64} {fuel : Nat} {seen loop : List Int64} {cur joint : Int64}
    {loop' seen' : List Int64} (h : follow ws ms fuel seen loop cur joint = .ok (loop', seen')) :
    ∃ new, loop' = loop ++ cur :: new ∧ seen' = new.reverse ++ seen ∧ new.Nodup ∧
      (∀ x ∈ new, x ∉ seen) ∧ (∀ x ∈ new, x ∈ ms) := by
  induction fuel generalizing seen loop cur joint with
  | zero => simp [follow] at h
  | succ fuel ih =>
    simp only [follow] at h
    split at h
    · cases h
    · rename_i next hnext
      split at h
      · cases h
      · rename_i a b _
        split at h
        · simp only [Except.ok.injEq, Prod.mk.injEq] at h
          exact ⟨[], by simp [← h.1], by simp [h.2], by simp, by simp, by simp⟩
        · rename_i hns
          obtain ⟨new, h1, h2, h3, h4, h5⟩ := ih h
          have hmem : next ∈ ms := mem_incident (List.mem_of_find?_eq_some hnext)
          have hns' : next ∉ seen := by simpa using hns
          refine ⟨next :: new, by simp [h1], by simp [h2], ?_, ?_, ?_⟩
          · refine List.nodup_cons.mpr ⟨?_, h3⟩
            intro hin
            exact h4 next hin (by simp)
          · intro x hx
            rcases List.mem_cons.mp hx with rfl | hx
            · exact hns'
            · intro hs; exact h4 x hx (by simp [hs])
          · intro x hx
            rcases List.mem_cons.mp hx with rfl | hx
            · exact hmem
            · exact h5 x hx

/-- the outer loop keeps: the loops so far use every seen way exactly once and nothing else -/
theorem group_spec {ws : List Way} {ms todo seen : List Int64} {loops res : List (List Int64)}
    (h : group ws ms todo seen loops = .ok res)
    (hnd : loops.flatten.Nodup) (hiff : ∀ x, x ∈ loops.flatten ↔ x ∈ seen) (hsub : ∀ x ∈ seen, x ∈ ms)
    (htodo : ∀ x ∈ todo, x ∈ ms) :
    res.flatten.Nodup ∧ (∀ x ∈ todo, x ∈ res.flatten) ∧ (∀ x ∈ seen, x ∈ res.flatten) ∧
    (∀ x ∈ res.flatten, x ∈ ms) ∧ (∀ l ∈ res, l ∈ loops ∨ l ≠ []) := by
  induction todo generalizing seen loops with
  | nil =>
    simp only [group, Except.ok.injEq] at h
    subst h
    exact ⟨hnd, by simp, fun x hx => (hiff x).mpr hx, fun x hx => hsub x ((hiff x).mp hx), fun l hl => Or.inl hl⟩
  | cons id rest ih =>
    simp only [group] at h
    have hrest : ∀ x ∈ rest, x ∈ ms := fun x hx => htodo x (by simp [hx])
    have hidms : id ∈ ms := htodo id (by simp)
    split at h
    · rename_i hs
      have hs' : id ∈ seen := by simpa using hs
      obtain ⟨r1, r2, r3, r4, r5⟩ := ih h hnd hiff hsub hrest
      refine ⟨r1, ?_, r3, r4, r5⟩
      intro x hx
      rcases List.mem_cons.mp hx with rfl | hx
      · exact r3 _ hs'
      · exact r2 x hx
    · rename_i hs
      have hs' : id ∉ seen := by simpa using hs
      have hnotin : id ∉ loops.flatten := fun hin => hs' ((hiff id).mp hin)
      split at h
      · cases h
      · rename_i a b _
        split at h
        · -- a closed way is a loop by itself
          have := ih h (loops := loops ++ [[id]]) (seen := id :: seen)
            (by
              simp only [List.flatten_append, List.flatten_cons, List.flatten_nil, List.append_nil]
              exact List.nodup_append.mpr ⟨hnd, by simp, by
                intro x hx y hy
                simp only [List.mem_singleton] at hy
                subst hy
                intro hxy; subst hxy; exact hnotin hx⟩)
            (by intro x; simp [hiff x, or_comm])
            (by intro x hx; rcases List.mem_cons.mp hx with rfl | hx; exact hidms; exact hsub x hx)
            hrest
          obtain ⟨r1, r2, r3, r4, r5⟩ := this
          refine ⟨r1, ?_, fun x hx => r3 x (by simp [hx]), r4, ?_⟩
          · intro x hx
            rcases List.mem_cons.mp hx with rfl | hx
            · exact r3 _ (by simp)
            · exact r2 x hx
          · intro l hl
            rcases r5 l hl with h' | h'
            · rcases List.mem_append.mp h' with h'' | h''
              · exact Or.inl h''
              · simp only [List.mem_singleton] at h''; subst h''; exact Or.inr (by simp)
            · exact Or.inr h'
        · split at h
          · cases h
          · rename_i loop seen' hf
            obtain ⟨new, h1, h2, h3, h4, h5⟩ := follow_spec hf
            simp only [List.nil_append] at h1
            have := ih h (loops := loops ++ [loop]) (seen := seen')
              (by
                simp only [List.flatten_append, List.flatten_cons, List.flatten_nil, List.append_nil, h1]
                refine List.nodup_append.mpr ⟨hnd, ?_, ?_⟩
                · refine List.nodup_cons.mpr ⟨fun hin => h4 id hin (by simp), h3⟩
                · intro x hx y hy hxy
                  subst hxy
                  rcases List.mem_cons.mp hy with rfl | hy
                  · exact hnotin hx
                  · exact h4 x hy (by simp [(hiff x).mp hx]))
              (by
                intro x
                simp only [List.flatten_append, List.flatten_cons, List.flatten_nil, List.append_nil, h1, h2,
                  List.mem_append, List.mem_cons, List.mem_reverse, hiff x]
                constructor
                · rintro (h' | h' | h') <;> simp [h']
                · rintro (h' | h' | h') <;> simp [h'])
              (by
                intro x hx
                rw [h2] at hx
                rcases List.mem_append.mp hx with hx | hx
                · exact h5 x (by simpa using hx)
                · rcases List.mem_cons.mp hx with rfl | hx
                  · exact hidms
                  · exact hsub x hx)
              hrest
            obtain ⟨r1, r2, r3, r4, r5⟩ := this
            refine ⟨r1, ?_, fun x hx => r3 x (by rw [h2]; simp [hx]), r4, ?_⟩
            · intro x hx
              rcases List.mem_cons.mp hx with rfl | hx
              · exact r3 _ (by rw [h2]; simp)
              · exact r2 x hx
            · intro l hl
              rcases r5 l hl with h' | h'
              · rcases List.mem_append.mp h' with h'' | h''
                · exact Or.inl h''
                · simp only [List.mem_singleton] at h''; subst h''; exact Or.inr (by simp [h1])
              · exact Or.inr h'

/-! ### every loop is a chain -/

theorem incident_ends {ws : List Way} {ms : List Int64} {v x : Int64} (h : x ∈ incident ws ms v) :
    ∃ a b, (findWay ws x).bind ends = some (a, b) ∧ (a = v ∨ b = v) := by
  unfold incident at h
  obtain ⟨id, _, hx⟩ := List.mem_flatMap.mp h
  split at hx
  · rename_i a b he
    simp only [List.mem_append] at hx
    rcases hx with hx | hx
    · split at hx
      · rename_i hav
        simp only [List.mem_singleton] at hx; subst hx
        exact ⟨a, b, he, Or.inl hav⟩
      · cases hx
    · split at hx
      · rename_i hbv
        simp only [List.mem_singleton] at hx; subst hx
        exact ⟨a, b, he, Or.inr hbv⟩
      · cases hx
  · cases hx

theorem thread_append (ws : List Way) (j : Int64) (l1 l2 : List Int64) :
    thread ws j (l1 ++ l2) = (thread ws j l1).bind fun j' => thread ws j' l2 := by
  induction l1 generalizing j with
  | nil => rfl
  | cons id l1 ih =>
    simp only [List.cons_append, thread]
    split
    · rfl
    · split
      · exact ih _
      · split
        · exact ih _
        · rfl

theorem closedFrom_eq_thread (ws : List Way) (start j : Int64) (l : List Int64) :
    closedFrom ws start j l = (thread ws j l == some start) := by
  induction l generalizing j with
  | nil => simp [closedFrom, thread]
  | cons id l ih =>
    simp only [closedFrom, thread]
    split
    · rfl
    · split
      · exact ih _
      · split
        · exact ih _
        · rfl

/-- the inner loop keeps the ways joined end to end: if the loop so far followed by the current way threads
from `j0` to `joint`, so does the returned loop to some joint -/
theorem follow_thread {ws : List Way} {ms : List Int64} {fuel : Nat} {seen loop : List Int64} {cur joint j0 : Int64}
    {loop' seen' : List Int64} (h : follow ws ms fuel seen loop cur joint = .ok (loop', seen'))
    (ht : thread ws j0 (loop ++ [cur]) = some joint) : ∃ j, thread ws j0 loop' = some j := by
  induction fuel generalizing seen loop cur joint with
  | zero => simp [follow] at h
  | succ fuel ih =>
    simp only [follow] at h
    split at h
    · cases h
    · rename_i next hnext
      obtain ⟨a, b, he, hab⟩ := incident_ends (List.mem_of_find?_eq_some hnext)
      rw [he] at h
      simp only at h
      split at h
      · simp only [Except.ok.injEq, Prod.mk.injEq] at h
        exact ⟨joint, by rw [← h.1]; exact ht⟩
      · refine ih h ?_
        rw [thread_append, ht]
        simp only [Option.bind_some, thread, he]
        by_cases hj : joint = a
        · simp [hj]
        · have hb : b = joint := by
            rcases hab with h' | h'
            · exact absurd h'.symm hj
            · exact h'
          have ha : ¬ a = joint := fun e => hj e.symm
          simp [hj, ha, hb]

theorem group_chain {ws : List Way} {ms todo seen : List Int64} {loops res : List (List Int64)}
    (h : group ws ms todo seen loops = .ok res) (hl : ∀ l ∈ loops, isChain ws l = true) :
    ∀ l ∈ res, isChain ws l = true := by
  induction todo generalizing seen loops with
  | nil =>
    simp only [group, Except.ok.injEq] at h
    subst h; exact hl
  | cons id rest ih =>
    simp only [group] at h
    split at h
    · exact ih h hl
    · split at h
      · cases h
      · rename_i a b he
        split at h
        · rename_i hab
          refine ih h ?_
          intro l hmem
          rcases List.mem_append.mp hmem with hmem | hmem
          · exact hl l hmem
          · simp only [List.mem_singleton] at hmem
            subst hmem
            simp [isChain, he, thread]
        · split at h
          · cases h
          · rename_i loop seen' hf
            refine ih h ?_
            intro l hmem
            rcases List.mem_append.mp hmem with hmem | hmem
            · exact hl l hmem
            · simp only [List.mem_singleton] at hmem
              subst hmem
              obtain ⟨new, h1, _⟩ := follow_spec hf
              obtain ⟨j, hj⟩ := follow_thread (j0 := a) hf (by simp [thread, he])
              simp only [List.nil_append] at h1
              subst h1
              simp [isChain, he, hj]

end B6.Lemmas.OsmRings
