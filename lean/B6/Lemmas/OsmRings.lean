import B6.Model.OsmRings
/-!
Lemmas about the ring stitching model (`B6/Model/OsmRings.lean`) for `B6/Props/C29.lean`.
-/
namespace B6.Lemmas.OsmRings
open B6.Model.Pbf (Fail)
open B6.Model.OsmRings

theorem mem_incident {ws : List Way} {ms : List Int64} {v x : Int64} (h : x ∈ incident ws ms v) : x ∈ ms := by
  unfold incident at h
  obtain ⟨id, hid, hx⟩ := List.mem_flatMap.mp h
  split at hx
  · rename_i a b _
    simp only [List.mem_append] at hx
    rcases hx with hx | hx <;> (split at hx <;> simp_all)
  · cases hx

/-- one run of the inner loop: the loop grows by the current way and by ways that were not seen before, each
once; exactly those are marked seen -/
theorem follow_spec {ws : List Way} {ms : List Int64} {fuel : Nat} {seen loop : List Int64} {cur joint : Int64}
    {loop' seen' : List Int64} (h : follow ws ms fuel seen loop cur joint = .ok (loop', seen')) :
    ∃ new, loop' = loop ++ cur :: new ∧ seen' = new.reverse ++ seen ∧ new.Nodup ∧
      (∀ x ∈ new, x ∉ seen) ∧ (∀ x ∈ new, x ∈ ms) := by
  induction fuel generalizing seen loop cur joint with
  | zero => simp [follow] at h
  | succ fuel ih =>
    simp only [follow] at h
    split at h
    · cases h
    · rename_i next hnext
      split at h
      · cases h
      · rename_i a b _
        split at h
        · simp only [Except.ok.injEq, Prod.mk.injEq] at h
          exact ⟨[], by simp [← h.1], by simp [h.2], by simp, by simp, by simp⟩
        · rename_i hns
          obtain ⟨new, h1, h2, h3, h4, h5⟩ := ih h
          have hmem : next ∈ ms := mem_incident (List.mem_of_find?_eq_some hnext)
          have hns' : next ∉ seen := by simpa using hns
          refine ⟨next :: new, by simp [h1], by simp [h2], ?_, ?_, ?_⟩
          · refine List.nodup_cons.mpr ⟨?_, h3⟩
            intro hin
            exact h4 next hin (by simp)
          · intro x hx
            rcases List.mem_cons.mp hx with rfl | hx
            · exact hns'
            · intro hs; exact h4 x hx (by simp [hs])
          · intro x hx
            rcases List.mem_cons.mp hx with rfl | hx
            · exact hmem
            · exact h5 x hx

/-- the outer loop keeps: the loops so far use every seen way exactly once and nothing else -/
theorem group_spec {ws : List Way} {ms todo seen : List Int64} {loops res : List (List Int64)}
    (h : group ws ms todo seen loops = .ok res)
    (hnd : loops.flatten.Nodup) (hiff : ∀ x, x ∈ loops.flatten ↔ x ∈ seen) (hsub : ∀ x ∈ seen, x ∈ ms)
    (htodo : ∀ x ∈ todo, x ∈ ms) :
    res.flatten.Nodup ∧ (∀ x ∈ todo, x ∈ res.flatten) ∧ (∀ x ∈ seen, x ∈ res.flatten) ∧
    (∀ x ∈ res.flatten, x ∈ ms) ∧ (∀ l ∈ res, l ∈ loops ∨ l ≠ []) := by
  induction todo generalizing seen loops with
  | nil =>
    simp only [group, Except.ok.injEq] at h
    subst h
    exact ⟨hnd, by simp, fun x hx => (hiff x).mpr hx, fun x hx => hsub x ((hiff x).mp hx), fun l hl => Or.inl hl⟩
  | cons id rest ih =>
    simp only [group] at h
    have hrest : ∀ x ∈ rest, x ∈ ms := fun x hx => htodo x (by simp [hx])
    have hidms : id ∈ ms := htodo id (by simp)
    split at h
    · rename_i hs
      have hs' : id ∈ seen := by simpa using hs
      obtain ⟨r1, r2, r3, r4, r5⟩ := ih h hnd hiff hsub hrest
      refine ⟨r1, ?_, r3, r4, r5⟩
      intro x hx
      rcases List.mem_cons.mp hx with rfl | hx
      · exact r3 _ hs'
      · exact r2 x hx
    · rename_i hs
      have hs' : id ∉ seen := by simpa using hs
      have hnotin : id ∉ loops.flatten := fun hin => hs' ((hiff id).mp hin)
      split at h
      · cases h
      · rename_i a b _
        split at h
        · -- a closed way is a loop by itself
          have := ih h (loops := loops ++ [[id]]) (seen := id :: seen)
            (by
              simp only [List.flatten_append, List.flatten_cons, List.flatten_nil, List.append_nil]
              exact List.nodup_append.mpr ⟨hnd, by simp, by
                intro x hx y hy
                simp only [List.mem_singleton] at hy
                subst hy
                intro hxy; subst hxy; exact hnotin hx⟩)
            (by intro x; simp [hiff x, or_comm])
            (by intro x hx; rcases List.mem_cons.mp hx with rfl | hx; exact hidms; exact hsub x hx)
            hrest
          obtain ⟨r1, r2, r3, r4, r5⟩ := this
          refine ⟨r1, ?_, fun x hx => r3 x (by simp [hx]), r4, ?_⟩
          · intro x hx
            rcases List.mem_cons.mp hx with rfl | hx
            · exact r3 _ (by simp)
            · exact r2 x hx
          · intro l hl
            rcases r5 l hl with h' | h'
            · rcases List.mem_append.mp h' with h'' | h''
              · exact Or.inl h''
              · simp only [List.mem_singleton] at h''; subst h''; exact Or.inr (by simp)
            · exact Or.inr h'
        · split at h
          · cases h
          · rename_i loop seen' hf
            obtain ⟨new, h1, h2, h3, h4, h5⟩ := follow_spec hf
            simp only [List.nil_append] at h1
            have := ih h (loops := loops ++ [loop]) (seen := seen')
              (by
                simp only [List.flatten_append, List.flatten_cons, List.flatten_nil, List.append_nil, h1]
                refine List.nodup_append.mpr ⟨hnd, ?_, ?_⟩
                · refine List.nodup_cons.mpr ⟨fun hin => h4 id hin (by simp), h3⟩
                · intro x hx y hy hxy
                  subst hxy
                  rcases List.mem_cons.mp hy with rfl | hy
                  · exact hnotin hx
                  · exact h4 x hy (by simp [(hiff x).mp hx]))
              (by
                intro x
                simp only [List.flatten_append, List.flatten_cons, List.flatten_nil, List.append_nil, h1, h2,
                  List.mem_append, List.mem_cons, List.mem_reverse, hiff x]
                constructor
                · rintro (h' | h' | h') <;> simp [h']
                · rintro (h' | h' | h') <;> simp [h'])
              (by
                intro x hx
                rw [h2] at hx
                rcases List.mem_append.mp hx with hx | hx
                · exact h5 x (by simpa using hx)
                · rcases List.mem_cons.mp hx with rfl | hx
                  · exact hidms
                  · exact hsub x hx)
              hrest
            obtain ⟨r1, r2, r3, r4, r5⟩ := this
            refine ⟨r1, ?_, fun x hx => r3 x (by rw [h2]; simp [hx]), r4, ?_⟩
            · intro x hx
              rcases List.mem_cons.mp hx with rfl | hx
              · exact r3 _ (by rw [h2]; simp)
              · exact r2 x hx
            · intro l hl
              rcases r5 l hl with h' | h'
              · rcases List.mem_append.mp h' with h'' | h''
                · exact Or.inl h''
                · simp only [List.mem_singleton] at h''; subst h''; exact Or.inr (by simp [h1])
              · exact Or.inr h'

/-! ### every loop is a chain -/

theorem incident_ends {ws : List Way} {ms : List Int64} {v x : Int64} (h : x ∈ incident ws ms v) :
    ∃ a b, (findWay ws x).bind ends = some (a, b) ∧ (a = v ∨ b = v) := by
  unfold incident at h
  obtain ⟨id, _, hx⟩ := List.mem_flatMap.mp h
  split at hx
  · rename_i a b he
    simp only [List.mem_append] at hx
    rcases hx with hx | hx
    · split at hx
      · rename_i hav
        simp only [List.mem_singleton] at hx; subst hx
        exact ⟨a, b, he, Or.inl hav⟩
      · cases hx
    · split at hx
      · rename_i hbv
        simp only [List.mem_singleton] at hx; subst hx
        exact ⟨a, b, he, Or.inr hbv⟩
      · cases hx
  · cases hx

theorem thread_append (ws : List Way) (j : Int64) (l1 l2 : List Int64) :
    thread ws j (l1 ++ l2) = (thread ws j l1).bind fun j' => thread ws j' l2 := by
  induction l1 generalizing j with
  | nil => rfl
  | cons id l1 ih =>
    simp only [List.cons_append, thread]
    split
    · rfl
    · split
      · exact ih _
      · split
        · exact ih _
        · rfl

theorem closedFrom_eq_thread (ws : List Way) (start j : Int64) (l : List Int64) :
    closedFrom ws start j l = (thread ws j l == some start) := by
  induction l generalizing j with
  | nil => simp [closedFrom, thread]
  | cons id l ih =>
    simp only [closedFrom, thread]
    split
    · rfl
    · split
      · exact ih _
      · split
        · exact ih _
        · rfl

/-- the inner loop keeps the ways joined end to end: if the loop so far followed by the current way threads
from `j0` to `joint`, so does the returned loop to some joint -/
theorem follow_thread {ws : List Way} {ms : List Int64} {fuel : Nat} {seen loop : List Int64} {cur joint j0 : Int64}
    {loop' seen' : List Int64} (h : follow ws ms fuel seen loop cur joint = .ok (loop', seen'))
    (ht : thread ws j0 (loop ++ [cur]) = some joint) : ∃ j, thread ws j0 loop' = some j := by
  induction fuel generalizing seen loop cur joint with
  | zero => simp [follow] at h
  | succ fuel ih =>
    simp only [follow] at h
    split at h
    · cases h
    · rename_i next hnext
      obtain ⟨a, b, he, hab⟩ := incident_ends (List.mem_of_find?_eq_some hnext)
      rw [he] at h
      simp only at h
      split at h
      · simp only [Except.ok.injEq, Prod.mk.injEq] at h
        exact ⟨joint, by rw [← h.1]; exact ht⟩
      · refine ih h ?_
        rw [thread_append, ht]
        simp only [Option.bind_some, thread, he]
        by_cases hj : joint = a
        · simp [hj]
        · have hb : b = joint := by
            rcases hab with h' | h'
            · exact absurd h'.symm hj
            · exact h'
          have ha : ¬ a = joint := fun e => hj e.symm
          simp [hj, ha, hb]

theorem group_chain {ws : List Way} {ms todo seen : List Int64} {loops res : List (List Int64)}
    (h : group ws ms todo seen loops = .ok res) (hl : ∀ l ∈ loops, isChain ws l = true) :
    ∀ l ∈ res, isChain ws l = true := by
  induction todo generalizing seen loops with
  | nil =>
    simp only [group, Except.ok.injEq] at h
    subst h; exact hl
  | cons id rest ih =>
    simp only [group] at h
    split at h
    · exact ih h hl
    · split at h
      · cases h
      · rename_i a b he
        split at h
        · rename_i hab
          refine ih h ?_
          intro l hmem
          rcases List.mem_append.mp hmem with hmem | hmem
          · exact hl l hmem
          · simp only [List.mem_singleton] at hmem
            subst hmem
            simp [isChain, he, thread]
        · split at h
          · cases h
          · rename_i loop seen' hf
            refine ih h ?_
            intro l hmem
            rcases List.mem_append.mp hmem with hmem | hmem
            · exact hl l hmem
            · simp only [List.mem_singleton] at hmem
              subst hmem
              obtain ⟨new, h1, _⟩ := follow_spec hf
              obtain ⟨j, hj⟩ := follow_thread (j0 := a) hf (by simp [thread, he])
              simp only [List.nil_append] at h1
              subst h1
              simp [isChain, he, hj]

/-! ### sums over duplicate-free lists -/

theorem sum_erase {α : Type} [DecidableEq α] (f : α → Nat) {m : List α} {x : α} (h : x ∈ m) :
    (m.map f).sum = f x + ((m.erase x).map f).sum := by
  induction m with
  | nil => cases h
  | cons a t ih =>
    by_cases hax : a = x
    · subst hax; simp
    · have hx : x ∈ t := by
        rcases List.mem_cons.mp h with h' | h'
        · exact absurd h'.symm hax
        · exact h'
      have hne : (a == x) = false := by simpa using hax
      simp only [List.map_cons, List.sum_cons, List.erase_cons, hne, ih hx]
      simp only [Bool.false_eq_true, if_false, List.map_cons, List.sum_cons]
      omega

/-- the values of distinct elements of `m` add up to at most the sum over `m` -/
theorem sum_le_of_nodup {α : Type} [DecidableEq α] (f : α → Nat) :
    ∀ (xs m : List α), xs.Nodup → (∀ x ∈ xs, x ∈ m) → (xs.map f).sum ≤ (m.map f).sum
  | [], _, _, _ => by simp
  | x :: xs, m, hnd, hsub => by
    have hx : x ∈ m := hsub x (by simp)
    have hnd' := List.nodup_cons.mp hnd
    have := sum_le_of_nodup f xs (m.erase x) hnd'.2 (by
      intro y hy
      have hne : y ≠ x := fun e => hnd'.1 (e ▸ hy)
      exact (List.mem_erase_of_ne hne).mpr (hsub y (by simp [hy])))
    rw [sum_erase f hx]
    simp only [List.map_cons, List.sum_cons]
    omega

theorem sum_filter_cons {α : Type} [DecidableEq α] (f : α → Nat) (z : α) (S : List α) (hz : z ∉ S) :
    ∀ (l : List α), l.Nodup →
      ((l.filter fun x => (z :: S).contains x).map f).sum =
        ((l.filter fun x => S.contains x).map f).sum + (if z ∈ l then f z else 0)
  | [], _ => by simp
  | h :: t, hnd => by
    have hnd' := List.nodup_cons.mp hnd
    have ih := sum_filter_cons f z S hz t hnd'.2
    by_cases hhz : h = z
    · subst hhz
      have h1 : (h :: S).contains h = true := by simp
      have h2 : S.contains h = false := by simpa using hz
      simp only [List.filter_cons, h1, h2, if_true, List.map_cons, List.sum_cons, ih, hnd'.1, if_false,
        List.mem_cons, true_or, Bool.false_eq_true]
      omega
    · have h1 : (z :: S).contains h = S.contains h := by
        simp [List.contains_cons, hhz]
      have hzin : (z ∈ h :: t) ↔ z ∈ t := by
        simp [List.mem_cons, Ne.symm hhz]
      simp only [List.filter_cons, h1, hzin]
      split
      · simp only [List.map_cons, List.sum_cons, ih]; omega
      · exact ih

/-! ### way-ends per node -/

/-- the number of ends (0, 1 or 2) way `id` has at node `v` -/
def e (ws : List Way) (id v : Int64) : Nat :=
  match (findWay ws id).bind ends with
  | some (a, b) => (if a = v then 1 else 0) + (if b = v then 1 else 0)
  | none => 0

/-- all member way-ends at `v` -/
def total (ws : List Way) (ms : List Int64) (v : Int64) : Nat := (ms.map (e ws · v)).sum

/-- the way-ends at `v` of the member ways in `S` -/
def sc (ws : List Way) (ms S : List Int64) (v : Int64) : Nat :=
  ((ms.filter fun x => S.contains x).map (e ws · v)).sum

theorem e_of_ends {ws : List Way} {id a b : Int64} (h : (findWay ws id).bind ends = some (a, b)) (v : Int64) :
    e ws id v = (if a = v then 1 else 0) + (if b = v then 1 else 0) := by
  simp [e, h]

theorem incident_length (ws : List Way) (ms : List Int64) (v : Int64) :
    (incident ws ms v).length = total ws ms v := by
  unfold incident total
  rw [List.length_flatMap]
  congr 1
  apply List.map_congr_left
  intro id _
  cases h : (findWay ws id).bind ends with
  | none => simp [e, h]
  | some p =>
    obtain ⟨a, b⟩ := p
    simp only [e, h, List.length_append]
    by_cases ha : a = v <;> by_cases hb : b = v <;> simp [ha, hb]

theorem e_pos_of_incident {ws : List Way} {ms : List Int64} {v x : Int64} (h : x ∈ incident ws ms v) :
    1 ≤ e ws x v := by
  obtain ⟨a, b, he, hab⟩ := incident_ends h
  rw [e_of_ends he]
  rcases hab with h' | h' <;> simp [h'] <;> omega

theorem sc_le_total (ws : List Way) (ms S : List Int64) (v : Int64) (hnd : ms.Nodup) :
    sc ws ms S v ≤ total ws ms v :=
  sum_le_of_nodup _ _ _ (hnd.filter _) (fun x hx => (List.mem_filter.mp hx).1)

theorem sc_cons (ws : List Way) (ms S : List Int64) (z v : Int64) (hnd : ms.Nodup) (hz : z ∈ ms) (hzS : z ∉ S) :
    sc ws ms (z :: S) v = sc ws ms S v + e ws z v := by
  unfold sc
  rw [sum_filter_cons (e ws · v) z S hzS ms hnd]
  simp [hz]

theorem two_le_sc (ws : List Way) (ms S : List Int64) (v x y : Int64) (hxy : x ≠ y)
    (hx : x ∈ ms) (hy : y ∈ ms) (hxS : x ∈ S) (hyS : y ∈ S) : e ws x v + e ws y v ≤ sc ws ms S v := by
  have := sum_le_of_nodup (e ws · v) [x, y] (ms.filter fun t => S.contains t) (by simp [hxy])
    (by intro t ht; simp only [List.mem_cons, List.not_mem_nil, or_false] at ht
        rcases ht with rfl | rfl <;> simp [List.mem_filter, *])
  unfold sc
  simp only [List.map_cons, List.map_nil, List.sum_cons, List.sum_nil] at this
  omega

theorem two_le_total (ws : List Way) (ms : List Int64) (v x y : Int64) (hxy : x ≠ y)
    (hx : x ∈ ms) (hy : y ∈ ms) : e ws x v + e ws y v ≤ total ws ms v := by
  have := sum_le_of_nodup (e ws · v) [x, y] ms (by simp [hxy])
    (by intro t ht; simp only [List.mem_cons, List.not_mem_nil, or_false] at ht
        rcases ht with rfl | rfl <;> assumption)
  unfold total
  simp only [List.map_cons, List.map_nil, List.sum_cons, List.sum_nil] at this
  omega

theorem three_le_total (ws : List Way) (ms : List Int64) (v x y z : Int64) (hxy : x ≠ y) (hxz : x ≠ z) (hyz : y ≠ z)
    (hx : x ∈ ms) (hy : y ∈ ms) (hz : z ∈ ms) : e ws x v + e ws y v + e ws z v ≤ total ws ms v := by
  have := sum_le_of_nodup (e ws · v) [x, y, z] ms (by simp [hxy, hxz, hyz])
    (by intro t ht; simp only [List.mem_cons, List.not_mem_nil, or_false] at ht
        rcases ht with rfl | rfl | rfl <;> assumption)
  unfold total
  simp only [List.map_cons, List.map_nil, List.sum_cons, List.sum_nil] at this
  omega

/-! ### closed rings -/

/-- the ways form node-disjoint cycles: members distinct, and every end node of a member way carries exactly two
member way-ends -/
structure Cyc (ws : List Way) (ms : List Int64) : Prop where
  nodup : ms.Nodup
  deg : ∀ id ∈ ms, ∀ a b, (findWay ws id).bind ends = some (a, b) → total ws ms a = 2 ∧ total ws ms b = 2

theorem follow_closed {ws : List Way} {ms : List Int64} (H : Cyc ws ms) {s a0 b0 : Int64}
    (hs : (findWay ws s).bind ends = some (a0, b0)) (hsm : s ∈ ms) :
    ∀ (fuel : Nat) (seen loop : List Int64) (cur joint : Int64) (loop' seen' : List Int64),
      follow ws ms fuel seen loop cur joint = .ok (loop', seen') →
      s ∈ seen → cur ∈ seen → cur ∈ ms → 1 ≤ e ws cur joint →
      thread ws a0 (loop ++ [cur]) = some joint →
      (cur = s → joint ≠ a0) →
      (∀ v, v ≠ a0 → v ≠ joint → sc ws ms seen v = 0 ∨ sc ws ms seen v = 2) →
      (a0 ≠ joint → sc ws ms seen a0 = 1 ∧ sc ws ms seen joint = 1) →
      (a0 = joint → sc ws ms seen a0 = 2) →
      thread ws a0 loop' = some a0 ∧ ∀ v, sc ws ms seen' v = 0 ∨ sc ws ms seen' v = 2 := by
  intro fuel
  induction fuel with
  | zero => intro seen loop cur joint loop' seen' h; simp [follow] at h
  | succ fuel ih =>
    intro seen loop cur joint loop' seen' h hsS hcS hcm hce hth hcs hpar hodd hcl
    simp only [follow] at h
    split at h
    · cases h
    · rename_i next hnext
      have hnin := List.mem_of_find?_eq_some hnext
      have hnc : next ≠ cur := by simpa using List.find?_some hnext
      obtain ⟨a, b, he, hab⟩ := incident_ends hnin
      have hnm : next ∈ ms := mem_incident hnin
      have hne := e_pos_of_incident hnin
      rw [he] at h
      simp only at h
      -- two way-ends at the joint
      have htot : total ws ms joint = 2 := by
        cases hec : (findWay ws cur).bind ends with
        | none => simp [e, hec] at hce
        | some pq =>
          obtain ⟨p, q⟩ := pq
          have := H.deg cur hcm p q hec
          rw [e_of_ends hec] at hce
          by_cases hp : p = joint
          · rw [← hp]; exact this.1
          · by_cases hq : q = joint
            · rw [← hq]; exact this.2
            · simp [hp, hq] at hce
      have hes : 1 ≤ e ws s a0 := by rw [e_of_ends hs]; simp
      by_cases hj : a0 = joint
      · -- the chain is back at its first node: the other way there is the start way
        have hcs' : cur ≠ s := fun e' => hcs e' hj.symm
        have hns : next = s := by
          by_cases hns : next = s
          · exact hns
          · have := three_le_total ws ms joint cur s next hcs' (Ne.symm hnc) (Ne.symm hns) hcm hsm hnm
            rw [← hj] at this hce hne htot
            omega
        have hseen : seen.contains next = true := by simpa [hns] using hsS
        simp only [hseen, if_true, Except.ok.injEq, Prod.mk.injEq] at h
        refine ⟨by rw [← h.1, hth, hj], ?_⟩
        intro v
        rw [← h.2]
        by_cases hv : v = a0
        · subst hv; exact Or.inr (hcl hj)
        · exact hpar v hv (by rw [← hj]; exact hv)
      · obtain ⟨ho1, ho2⟩ := hodd hj
        have hnS : next ∉ seen := by
          intro hin
          have := two_le_sc ws ms seen joint cur next (Ne.symm hnc) hcm hnm hcS hin
          omega
        have hseen : seen.contains next = false := by simpa using hnS
        simp only [hseen, Bool.false_eq_true, if_false] at h
        -- the next way has exactly one end at the joint
        have h2 := two_le_total ws ms joint cur next (Ne.symm hnc) hcm hnm
        have hen1 : e ws next joint = 1 := by omega
        have hab' : a ≠ b := by
          intro hab'
          subst hab'
          rw [e_of_ends he] at hen1
          rcases hab with h' | h' <;> simp [h'] at hen1
        -- the node the chain goes on to
        generalize hj' : (if joint = a then b else a) = joint' at h
        have hjj : joint' ≠ joint := by
          rw [← hj']
          by_cases hja : joint = a
          · simp only [hja, if_true]; exact fun e' => hab' (e'.symm)
          · simp only [hja, if_false]; exact fun e' => hja e'.symm
        have hjab : joint' = a ∨ joint' = b := by
          rw [← hj']; by_cases hja : joint = a <;> simp [hja]
        have hother : (joint = a ∧ joint' = b) ∨ (joint = b ∧ joint' = a) := by
          rw [← hj']
          by_cases hja : joint = a
          · simp [hja]
          · rcases hab with h' | h'
            · exact absurd h'.symm hja
            · simp [hja, h'.symm]
        have henj' : e ws next joint' = 1 := by
          rw [e_of_ends he]
          rcases hother with ⟨h1, h2⟩ | ⟨h1, h2⟩
          · subst h1 h2; simp [hab']
          · subst h1 h2; simp [Ne.symm hab']
        have hen0 : ∀ v, v ≠ joint → v ≠ joint' → e ws next v = 0 := by
          intro v hv1 hv2
          rw [e_of_ends he]
          rcases hother with ⟨h1, h2⟩ | ⟨h1, h2⟩
          · subst h1 h2; simp [Ne.symm hv1, Ne.symm hv2]
          · subst h1 h2; simp [Ne.symm hv1, Ne.symm hv2]
        have hsc : ∀ v, sc ws ms (next :: seen) v = sc ws ms seen v + e ws next v :=
          fun v => sc_cons ws ms seen next v H.nodup hnm hnS
        have htot' : total ws ms joint' = 2 := by
          have := H.deg next hnm a b he
          rcases hjab with h' | h'
          · rw [h']; exact this.1
          · rw [h']; exact this.2
        have hle := sc_le_total ws ms (next :: seen) joint' H.nodup
        rw [hsc joint', henj', htot'] at hle
        have hthread : thread ws a0 ((loop ++ [cur]) ++ [next]) = some joint' := by
          rw [thread_append, hth]
          simp only [Option.bind_some, thread, he]
          rcases hother with ⟨h1, h2⟩ | ⟨h1, h2⟩
          · subst h1 h2; simp
          · subst h1 h2; simp [hab']
        have hns : next ≠ s := fun e' => hnS (e' ▸ hsS)
        refine ih (next :: seen) (loop ++ [cur]) next joint' loop' seen' h (by simp [hsS]) (by simp) hnm
          (by omega) hthread (fun e' => absurd e' hns) ?_ ?_ ?_
        · intro v hv1 hv2
          rw [hsc v]
          by_cases hvj : v = joint
          · subst hvj; right; omega
          · rw [hen0 v hvj hv2]
            simpa using hpar v hv1 hvj
        · intro hne'
          have hpj := hpar joint' (Ne.symm hne') hjj
          have : sc ws ms seen joint' = 0 := by omega
          refine ⟨?_, by rw [hsc joint', this, henj']⟩
          rw [hsc a0, hen0 a0 hj hne', ho1]
        · intro heq
          rw [hsc a0, heq, henj', ← heq, ho1]

theorem sc_nil (ws : List Way) (ms : List Int64) (v : Int64) : sc ws ms [] v = 0 := by
  have : ms.filter (fun _ => false) = [] := List.filter_eq_nil_iff.mpr (by simp)
  simp [sc, this]

theorem cyc_of_disjointCycles {ws : List Way} {ms : List Int64} (h : disjointCycles ws ms = true) : Cyc ws ms := by
  simp only [disjointCycles, Bool.and_eq_true, decide_eq_true_eq, List.all_eq_true] at h
  obtain ⟨⟨hnd, _⟩, hdeg⟩ := h
  refine ⟨hnd, ?_⟩
  intro id hid a b he
  have := hdeg id hid
  rw [he] at this
  simp only [Bool.and_eq_true, beq_iff_eq] at this
  rw [← incident_length, ← incident_length]
  exact this

theorem group_closed {ws : List Way} {ms : List Int64} (H : Cyc ws ms) {todo seen : List Int64}
    {loops res : List (List Int64)} (h : group ws ms todo seen loops = .ok res)
    (htodo : ∀ x ∈ todo, x ∈ ms) (hpar : ∀ v, sc ws ms seen v = 0 ∨ sc ws ms seen v = 2)
    (hl : ∀ l ∈ loops, isClosedRing ws l = true) : ∀ l ∈ res, isClosedRing ws l = true := by
  induction todo generalizing seen loops with
  | nil =>
    simp only [group, Except.ok.injEq] at h
    subst h; exact hl
  | cons id rest ih =>
    simp only [group] at h
    have hrest : ∀ x ∈ rest, x ∈ ms := fun x hx => htodo x (by simp [hx])
    have hidm : id ∈ ms := htodo id (by simp)
    split at h
    · exact ih h hrest hpar hl
    · rename_i hns
      have hnS : id ∉ seen := by simpa using hns
      have hsc : ∀ v, sc ws ms (id :: seen) v = sc ws ms seen v + e ws id v :=
        fun v => sc_cons ws ms seen id v H.nodup hidm hnS
      split at h
      · cases h
      · rename_i a b he
        obtain ⟨hta, htb⟩ := H.deg id hidm a b he
        split at h
        · rename_i hab
          subst hab
          refine ih h hrest ?_ ?_
          · intro v
            rw [hsc v, e_of_ends he]
            by_cases hv : a = v
            · subst hv
              have hle := sc_le_total ws ms (id :: seen) a H.nodup
              rw [hsc a, e_of_ends he, hta] at hle
              simp only [if_true] at hle ⊢
              right; omega
            · simpa [hv] using hpar v
          · intro l hmem
            rcases List.mem_append.mp hmem with hmem | hmem
            · exact hl l hmem
            · simp only [List.mem_singleton] at hmem
              subst hmem
              simp [isClosedRing, he, closedFrom]
        · rename_i hab
          split at h
          · cases h
          · rename_i loop seen' hf
            have hea : e ws id a = 1 := by rw [e_of_ends he]; simp [Ne.symm hab]
            have heb : e ws id b = 1 := by rw [e_of_ends he]; simp [hab]
            have he0 : ∀ v, v ≠ a → v ≠ b → e ws id v = 0 := by
              intro v h1 h2; rw [e_of_ends he]; simp [Ne.symm h1, Ne.symm h2]
            have hlea := sc_le_total ws ms (id :: seen) a H.nodup
            have hleb := sc_le_total ws ms (id :: seen) b H.nodup
            rw [hsc a, hea, hta] at hlea
            rw [hsc b, heb, htb] at hleb
            have hcl := follow_closed H he hidm (ms.length + 1) (id :: seen) [] id b loop seen' hf
              (by simp) (by simp) hidm (by omega) (by simp [thread, he]) (fun _ => Ne.symm hab)
              (by intro v h1 h2; rw [hsc v, he0 v h1 h2]; simpa using hpar v)
              (by
                intro _
                have ha := hpar a
                have hb := hpar b
                exact ⟨by rw [hsc a, hea]; omega, by rw [hsc b, heb]; omega⟩)
              (fun e' => absurd e' hab)
            obtain ⟨new, h1, _⟩ := follow_spec hf
            simp only [List.nil_append] at h1
            refine ih h hrest hcl.2 ?_
            intro l hmem
            rcases List.mem_append.mp hmem with hmem | hmem
            · exact hl l hmem
            · simp only [List.mem_singleton] at hmem
              subst hmem
              have := hcl.1
              subst h1
              simp [isClosedRing, he, closedFrom_eq_thread, this]

/-- **disjoint cycles ⇒ every loop is closed** -/
theorem rings_closed {ws : List Way} {ms : List Int64} {loops : List (List Int64)}
    (hc : disjointCycles ws ms = true) (h : rings ws ms = .ok loops) : ∀ l ∈ loops, isClosedRing ws l = true := by
  unfold rings at h
  split at h
  · cases h
  · exact group_closed (cyc_of_disjointCycles hc) h (fun x hx => hx) (fun v => Or.inl (sc_nil ws ms v)) (by simp)


end B6.Lemmas.OsmRings
