import B6.Lemmas.Validator
/-!
C37: `compact.Validator` emits no feature twice (`run_nodup`), by counting IDs through `feed`/`drainQueue`.
-/
namespace B6.Lemmas.ValidatorUniq
open B6.Model.Validate B6.Lemmas.Validate B6.Lemmas.Validator

/-- how often an ID occurs among the features of a list -/
def cnt (x : Id) (l : List Feat) : Nat := (l.map (·.id)).count x

theorem cnt_nil (x : Id) : cnt x [] = 0 := rfl
theorem cnt_append (x : Id) (a b : List Feat) : cnt x (a ++ b) = cnt x a + cnt x b := by
  simp [cnt, List.count_append]
theorem cnt_cons (x : Id) (a : Feat) (l : List Feat) : cnt x (a :: l) = cnt x [a] + cnt x l := by
  simp [cnt, List.count_cons]; omega
theorem cnt_single_id (x : Id) (a b : Feat) (h : a.id = b.id) : cnt x [a] = cnt x [b] := by
  simp [cnt, h]

theorem set_queue (v : Validator) (id : Id) (s : VState) : (v.set id s).queue = v.queue := rfl

theorem drainStep_cnt (x : Id) (acc : Validator × List Feat × List Feat) (a : Feat) :
    cnt x (drainStep acc a).2.1 + cnt x (drainStep acc a).2.2 ≤ cnt x acc.2.1 + cnt x acc.2.2 + cnt x [a] := by
  unfold drainStep
  cases a.geo with
  | area polys =>
    simp only
    split
    · dsimp only; simp only [cnt_append]; omega
    · split
      · dsimp only; simp only [cnt_append]; omega
      · dsimp only; omega
  | point _ => simp only; omega
  | path _ => simp only; omega
  | other _ => simp only; omega

theorem drainFold_cnt (x : Id) : ∀ (q : List Feat) (acc : Validator × List Feat × List Feat),
    cnt x (q.foldl drainStep acc).2.1 + cnt x (q.foldl drainStep acc).2.2 ≤ cnt x acc.2.1 + cnt x acc.2.2 + cnt x q := by
  intro q
  induction q with
  | nil => intro acc; simp [cnt_nil]
  | cons a q ih =>
    intro acc
    simp only [List.foldl_cons]
    have h1 := ih (drainStep acc a)
    have h2 := drainStep_cnt x acc a
    rw [cnt_cons x a q]
    omega

theorem drainQueue_cnt (x : Id) (v : Validator) :
    cnt x v.drainQueue.2 + cnt x v.drainQueue.1.queue ≤ cnt x v.queue := by
  rw [drainQueue_eq]
  have := drainFold_cnt x v.queue (v, [], [])
  simp only [cnt_nil] at this
  simp only
  omega

theorem feed_cnt (O : Oracle) (x : Id) (v : Validator) (f : Feat) :
    cnt x (v.feed O f).2 + cnt x (v.feed O f).1.queue ≤ cnt x [f] + cnt x v.queue := by
  obtain ⟨fi, fg⟩ := f
  cases fg with
  | point l => simp only [Validator.feed]; omega
  | other l => simp only [Validator.feed]; omega
  | area polys =>
    obtain ⟨_, _, c3, _⟩ := checkArea_spec v polys
    simp only [Validator.feed]
    split
    · dsimp only; rw [c3]; omega
    · split
      · dsimp only; simp only [cnt_append, cnt_nil, c3]; omega
      · dsimp only; simp only [cnt_nil, c3]; omega
  | path refs =>
    simp only [Validator.feed]
    cases validatePath O v.points refs with
    | invalid =>
      simp only
      split
      · have := drainQueue_cnt x (v.set fi .invalid)
        rw [set_queue] at this
        dsimp only
        simp only [List.nil_append]
        omega
      · dsimp only; simp only [cnt_nil, set_queue]; omega
    | ok =>
      simp only
      split
      · have := drainQueue_cnt x (v.set fi (if isLoop v.points refs = true then VState.valid else VState.validNotLoop))
        rw [set_queue] at this
        dsimp only
        rw [cnt_append]
        omega
      · dsimp only; simp only [set_queue]; omega
    | clockwise =>
      simp only
      have hid : cnt x [(⟨fi, .path refs.reverse⟩ : Feat)] = cnt x [(⟨fi, .path refs⟩ : Feat)] := cnt_single_id x _ _ rfl
      split
      · have := drainQueue_cnt x (v.set fi (if isLoop v.points refs.reverse = true then VState.valid else VState.validNotLoop))
        rw [set_queue] at this
        dsimp only
        rw [cnt_append]
        omega
      · dsimp only; simp only [set_queue]; omega

theorem run_cnt (O : Oracle) (x : Id) : ∀ (src : List Feat) (v : Validator),
    cnt x (Validator.run O v src).2 + cnt x (Validator.run O v src).1.queue ≤ cnt x src + cnt x v.queue := by
  intro src
  induction src with
  | nil => intro v; simp [Validator.run, cnt_nil]
  | cons f fs ih =>
    intro v
    simp only [Validator.run]
    have h1 := feed_cnt O x v f
    have h2 := ih (v.feed O f).1
    rw [cnt_append, cnt_cons x f fs]
    omega

/-- **no feature is emitted twice**: when the IDs of the stream are distinct, so are the emitted IDs -/
theorem run_nodup (O : Oracle) (pts : World) (src : List Feat) (hu : (src.map (·.id)).Nodup) :
    ((Validator.run O ⟨pts, [], []⟩ src).2.map (·.id)).Nodup := by
  rw [List.nodup_iff_count]
  intro x
  have h := run_cnt O x src ⟨pts, [], []⟩
  have hs := (List.nodup_iff_count.mp hu) x
  simp only [cnt] at h hs ⊢
  simp only [List.map_nil, List.count_nil] at h
  omega

end B6.Lemmas.ValidatorUniq
