import B6.Spec.ShortestPath
/-!
# Lemmas for C30 (core Lean only): the loop invariant of `ExpandSearch` and what follows from it

* order facts derived from `LawfulCost`; `tget`/`tput` facts; `relax_spec` (what one inner-loop iteration does);
* `Core` / `Inv` / `Mid`: the invariant between outer iterations and inside the inner loop, with
  `Mid.ofInv` (pop + mark visited), `Mid.relax` (one segment), `Mid.toInv`, `Inv.expand`;
* `Reach`: the abstract search = any sequence of `expand` steps at queued minima; `Reach.inv`,
  `Reach.trace_settled`, `Reach.nondecreasing`;
* `walk_exit` and `settled_le_walk` (settled entries carry final distances, in every state);
* `Inv.init`, `Inv.initTo` (initial tables of `ExpandSearch` / `ExpandSearchTo`);
* `buildRoute_sound`, `buildRoute_terminates` (`Ranked`: back-pointers lead to earlier-settled points); `isMinB_sound`, `allVisited_sound`, `foldl_relaxH_table` (heap run ⊑ abstract run).
-/
set_option linter.unusedSectionVars false
set_option linter.unusedVariables false
namespace B6.Lemmas.Dijkstra
open B6.Model.Dijkstra B6.Spec.ShortestPath

section order
variable {α : Type} [Cost α] [LawfulCost α]

theorem le_rfl' (a : α) : a ≤ a := LawfulCost.le_refl a
theorem le_trans' {a b c : α} (h1 : a ≤ b) (h2 : b ≤ c) : a ≤ c := LawfulCost.le_trans h1 h2
theorem le_of_not_lt {a b : α} (h : ¬ a < b) : b ≤ a :=
  Classical.byContradiction fun hn => h (LawfulCost.lt_iff_not_le.mpr hn)
theorem not_lt_of_le {a b : α} (h : b ≤ a) : ¬ a < b := fun hl => (LawfulCost.lt_iff_not_le.mp hl) h
theorem le_of_lt {a b : α} (h : a < b) : a ≤ b :=
  (LawfulCost.le_total a b).resolve_right (LawfulCost.lt_iff_not_le.mp h)
theorem lt_of_le_of_lt {a b c : α} (h1 : a ≤ b) (h2 : b < c) : a < c :=
  LawfulCost.lt_iff_not_le.mpr fun h => (LawfulCost.lt_iff_not_le.mp h2) (LawfulCost.le_trans h h1)
theorem lt_of_lt_of_le {a b c : α} (h1 : a < b) (h2 : b ≤ c) : a < c :=
  LawfulCost.lt_iff_not_le.mpr fun h => (LawfulCost.lt_iff_not_le.mp h1) (LawfulCost.le_trans h2 h)
end order

section table
variable {P S α : Type} [DecidableEq P] [Cost α]

theorem get_put (t : Table P S α) (p q : P) (e : Entry P S α) :
    tget (tput t p e) q = if q = p then some e else tget t q := by
  induction t with
  | nil =>
    by_cases h : q = p
    · subst h; simp [tput, tget]
    · have h' : ¬ p = q := fun x => h x.symm
      simp [tput, tget, h, h']
  | cons hd tl ih =>
    obtain ⟨k, x⟩ := hd
    by_cases hk : k = p
    · subst hk
      by_cases h : q = k
      · subst h; simp [tput, tget]
      · have h' : ¬ k = q := fun x => h x.symm
        simp [tput, tget, h, h']
    · by_cases hq : k = q
      · subst hq
        have : ¬ k = p := hk
        simp [tput, tget, hk]
      · simp [tput, tget, hk, hq, ih]

theorem get_put_self (t : Table P S α) (p : P) (e : Entry P S α) : tget (tput t p e) p = some e := by
  simp [get_put]

theorem get_put_ne (t : Table P S α) {p q : P} (e : Entry P S α) (h : q ≠ p) : tget (tput t p e) q = tget t q := by
  simp [get_put, h]

theorem mem_of_get {t : Table P S α} {p : P} {e : Entry P S α} (h : tget t p = some e) : (p, e) ∈ t := by
  induction t with
  | nil => simp [tget] at h
  | cons hd tl ih =>
    obtain ⟨k, x⟩ := hd
    by_cases hk : k = p
    · subst hk; simp [tget] at h; subst h; simp
    · simp [tget, hk] at h; exact List.mem_cons_of_mem _ (ih h)

theorem get_of_mem {t : Table P S α} {p : P} {e : Entry P S α} (h : (p, e) ∈ t) : ∃ e', tget t p = some e' := by
  induction t with
  | nil => simp at h
  | cons hd tl ih =>
    obtain ⟨k, x⟩ := hd
    by_cases hk : k = p
    · subst hk; exact ⟨x, by simp [tget]⟩
    · simp [tget, hk]
      rcases List.mem_cons.mp h with h | h
      · cases h; exact absurd rfl hk
      · exact ih h

/-- what one `relax` does, as a case split the invariant proofs use -/
theorem relax_spec (max d : α) (t : Table P S α) (e : Edge P S α) :
    (relax max d t e = t ∧
      (e.usable = true → d + e.weight < max →
        ∃ n, tget t e.last = some n ∧ (n.visited = true ∨ ¬ d + e.weight < n.dist))) ∨
    (e.usable = true ∧ d + e.weight < max ∧
      ∃ ne : Entry P S α, relax max d t e = tput t e.last ne ∧ ne.visited = false ∧ ne.dist = d + e.weight ∧
        ne.back = some e ∧ ∀ n, tget t e.last = some n → n.visited = false ∧ d + e.weight < n.dist) := by
  unfold relax relaxK addOrUpdateK
  cases hg : tget t e.last with
  | none =>
    by_cases hu : e.usable = true
    · by_cases hm : d + e.weight < max
      · right
        refine ⟨hu, hm, { visited := false, dist := d + e.weight, back := some e }, ?_, rfl, rfl, rfl, ?_⟩
        · simp [hu, hm]
        · intro n hn; cases hn
      · left; simp [hu, hm]
    · left; simp [hu]
  | some n =>
    by_cases hv : n.visited = true
    · left
      simp [hv]
    · have hv' : n.visited = false := by simpa using hv
      by_cases hu : e.usable = true
      · by_cases hm : d + e.weight < max
        · by_cases hl : d + e.weight < n.dist
          · right
            refine ⟨hu, hm, { n with dist := d + e.weight, back := some e }, ?_, hv', rfl, rfl, ?_⟩
            · simp [hv', hu, hm, hl]
            · intro n' hn'; cases hn'; exact ⟨hv', hl⟩
          · left
            simp [hv', hu, hm, hl]
        · left; simp [hv', hu, hm]
      · left; simp [hv', hu]

end table

section inv
variable {P S α : Type} [DecidableEq P] [Cost α]

/-- the edge `e` out of a settled point with distance `d` has been accounted for -/
def RelaxedEdge (max : α) (t : Table P S α) (d : α) (e : Edge P S α) : Prop :=
  e.usable = true → d + e.weight < max → ∃ ev, tget t e.last = some ev ∧ ev.dist ≤ d + e.weight

/-- Part of the invariant that holds at every moment (also inside the inner loop).
`J` = points that may carry a "junk" entry (the `+Inf` sentinel of `ExpandSearchTo`): no segment, distance not
below `max`. -/
structure Core (g : Graph P S α) (origins : List P) (J : P → Prop) (max : α) (t : Table P S α) : Prop where
  walk : ∀ p e, tget t p = some e →
    (∃ es, Walk g origins p e.dist es) ∨ (J p ∧ e.back = none ∧ ¬ e.dist < max)
  chain : ∀ p e b, tget t p = some e → e.back = some b →
    b.usable = true ∧ b.last = p ∧ e.dist < max ∧
    ∃ u eu, b ∈ g.adj u ∧ tget t u = some eu ∧ eu.visited = true ∧ e.dist = eu.dist + b.weight
  root : ∀ p e, tget t p = some e → e.back = none →
    (p ∈ origins ∧ e.dist = Cost.zero) ∨ (J p ∧ ¬ e.dist < max)
  le : ∀ u v eu ev, tget t u = some eu → eu.visited = true → tget t v = some ev → ev.visited = false →
    eu.dist ≤ ev.dist
  orig : ∀ o, o ∈ origins → ∃ e, tget t o = some e ∧ e.dist ≤ Cost.zero

/-- The loop invariant of `ExpandSearch` between iterations of the outer loop. -/
structure Inv (g : Graph P S α) (origins : List P) (J : P → Prop) (max : α) (t : Table P S α) : Prop where
  core : Core g origins J max t
  relaxed : ∀ u eu, tget t u = some eu → eu.visited = true → ∀ e, e ∈ g.adj u → RelaxedEdge max t eu.dist e

/-- The invariant of the inner loop while `p` (entry `r` at pop time) is being expanded and the segments in
`L` have been processed. -/
structure Mid (g : Graph P S α) (origins : List P) (J : P → Prop) (max : α) (p : P) (r : Entry P S α)
    (L : List (Edge P S α)) (t : Table P S α) : Prop where
  core : Core g origins J max t
  self : tget t p = some { r with visited := true }
  below : ∀ u eu, tget t u = some eu → eu.visited = true → eu.dist ≤ r.dist
  relaxedOthers : ∀ u eu, u ≠ p → tget t u = some eu → eu.visited = true →
    ∀ e, e ∈ g.adj u → RelaxedEdge max t eu.dist e
  relaxedSelf : ∀ e, e ∈ L → RelaxedEdge max t r.dist e

variable [LawfulCost α]
variable {g : Graph P S α} {origins : List P} {J : P → Prop} {max : α}

/-- entries only get closer and never disappear: relaxed edges stay relaxed -/
theorem RelaxedEdge.mono {t t' : Table P S α} {d : α} {e : Edge P S α}
    (h : RelaxedEdge max t d e)
    (hle : ∀ q x, tget t q = some x → ∃ x', tget t' q = some x' ∧ x'.dist ≤ x.dist) :
    RelaxedEdge max t' d e := by
  intro hu hm
  obtain ⟨ev, hev, hd⟩ := h hu hm
  obtain ⟨x', hx', hd'⟩ := hle _ _ hev
  exact ⟨x', hx', le_trans' hd' hd⟩

/-- marking the popped minimum visited establishes the inner-loop invariant -/
theorem Mid.ofInv {t : Table P S α} {p : P} {r : Entry P S α}
    (hI : Inv g origins J max t) (hp : tget t p = some r) (hv : r.visited = false)
    (hmin : ∀ q eq, tget t q = some eq → eq.visited = false → ¬ (eq.dist < r.dist)) :
    Mid g origins J max p r [] (tput t p { r with visited := true }) := by
  have hc := hI.core
  -- every entry of the new table is an entry of the old one up to the visited flag of `p`
  have old : ∀ q x, tget (tput t p { r with visited := true }) q = some x →
      (q = p ∧ x = { r with visited := true }) ∨ (q ≠ p ∧ tget t q = some x) := by
    intro q x hx
    rw [get_put] at hx
    by_cases hq : q = p
    · left; simp [hq] at hx; exact ⟨hq, hx.symm⟩
    · right; simp [hq] at hx; exact ⟨hq, hx⟩
  have new : ∀ q x, tget t q = some x →
      ∃ x', tget (tput t p { r with visited := true }) q = some x' ∧ x'.dist = x.dist ∧ x'.back = x.back ∧
        (x.visited = true → x'.visited = true) := by
    intro q x hx
    rw [get_put]
    by_cases hq : q = p
    · subst hq; rw [hp] at hx; cases hx; exact ⟨{ r with visited := true }, by simp, rfl, rfl, fun _ => rfl⟩
    · exact ⟨x, by simp [hq, hx], rfl, rfl, id⟩
  have mono : ∀ q x, tget t q = some x →
      ∃ x', tget (tput t p { r with visited := true }) q = some x' ∧ x'.dist ≤ x.dist := by
    intro q x hx
    obtain ⟨x', h1, h2, _⟩ := new q x hx
    exact ⟨x', h1, by rw [h2]; exact le_rfl' _⟩
  refine ⟨⟨?_, ?_, ?_, ?_, ?_⟩, get_put_self _ _ _, ?_, ?_, ?_⟩
  · intro q x hx
    rcases old q x hx with ⟨hq, hxe⟩ | ⟨_, hxo⟩
    · subst hq; subst hxe; exact hc.walk q r hp
    · exact hc.walk _ _ hxo
  · intro q x b hx hb
    have : ∃ x0, tget t q = some x0 ∧ x0.dist = x.dist ∧ x0.back = x.back := by
      rcases old q x hx with ⟨hq, hxe⟩ | ⟨_, hxo⟩
      · subst hq; subst hxe; exact ⟨r, hp, rfl, rfl⟩
      · exact ⟨x, hxo, rfl, rfl⟩
    obtain ⟨x0, hx0, hd, hbk⟩ := this
    obtain ⟨h1, h2, h3, u, eu, hu1, hu2, hu3, hu4⟩ := hc.chain q x0 b hx0 (by rw [hbk]; exact hb)
    obtain ⟨eu', he1, he2, _, he4⟩ := new u eu hu2
    refine ⟨h1, h2, by rw [← hd]; exact h3, u, eu', hu1, he1, he4 hu3, ?_⟩
    rw [← hd, he2]; exact hu4
  · intro q x hx hb
    rcases old q x hx with ⟨hq, hxe⟩ | ⟨_, hxo⟩
    · subst hq; subst hxe; exact hc.root q r hp hb
    · exact hc.root _ _ hxo hb
  · intro u v eu ev hu huv hv' hvv
    rcases old v ev hv' with ⟨hq, hxe⟩ | ⟨hvp, hvo⟩
    · subst hxe; simp at hvv
    · rcases old u eu hu with ⟨hq, hxe⟩ | ⟨_, huo⟩
      · subst hxe; exact le_of_not_lt (hmin v ev hvo hvv)
      · exact hc.le u v eu ev huo huv hvo hvv
  · intro o ho
    obtain ⟨e, he, hd⟩ := hc.orig o ho
    obtain ⟨x', h1, h2⟩ := mono o e he
    exact ⟨x', h1, le_trans' h2 hd⟩
  · intro u eu hu huv
    rcases old u eu hu with ⟨hq, hxe⟩ | ⟨_, huo⟩
    · subst hxe; exact le_rfl' _
    · exact hc.le u p eu r huo huv hp hv
  · intro u eu hup hu huv e he
    rcases old u eu hu with ⟨hq, _⟩ | ⟨_, huo⟩
    · exact absurd hq hup
    · exact (hI.relaxed u eu huo huv e he).mono mono
  · intro e he; simp at he


/-- one segment of the inner loop keeps the inner-loop invariant and accounts for that segment -/
theorem Mid.relax {t : Table P S α} {p : P} {r : Entry P S α} {L : List (Edge P S α)} {e : Edge P S α}
    (hN : NonNeg g) (hM : Mid g origins J max p r L t) (he : e ∈ g.adj p) :
    Mid g origins J max p r (e :: L) (Model.Dijkstra.relax max r.dist t e) := by
  have hc := hM.core
  rcases relax_spec max r.dist t e with ⟨heq, hsame⟩ | ⟨hu, hm, ne, heq, hnv, hnd, hnb, hold⟩
  · -- table unchanged
    rw [heq]
    refine ⟨hc, hM.self, hM.below, hM.relaxedOthers, ?_⟩
    intro e' he'
    rcases List.mem_cons.mp he' with h | h
    · subst h
      intro hu hm
      obtain ⟨n, hn, hcase⟩ := hsame hu hm
      refine ⟨n, hn, ?_⟩
      rcases hcase with hvis | hnl
      · exact le_trans' (hM.below _ _ hn hvis) (LawfulCost.le_add_of_nonneg _ (hN p e' he hu))
      · exact le_of_not_lt hnl
    · exact hM.relaxedSelf e' h
  · -- entry of `e.last` created or decreased
    rw [heq]
    have hw : (Cost.zero : α) ≤ e.weight := hN p e he hu
    have hvp : e.last ≠ p := by
      intro h
      have := hM.self
      rw [← h] at this
      have := (hold _ this).1
      simp at this
    have old : ∀ q x, tget (tput t e.last ne) q = some x →
        (q = e.last ∧ x = ne) ∨ (q ≠ e.last ∧ tget t q = some x) := by
      intro q x hx
      rw [get_put] at hx
      by_cases hq : q = e.last
      · left; simp [hq] at hx; exact ⟨hq, hx.symm⟩
      · right; simp [hq] at hx; exact ⟨hq, hx⟩
    have keep : ∀ q x, tget t q = some x → x.visited = true → tget (tput t e.last ne) q = some x := by
      intro q x hx hxv
      rw [get_put]
      by_cases hq : q = e.last
      · subst hq
        have := (hold _ hx).1
        rw [hxv] at this; cases this
      · simp [hq, hx]
    have mono : ∀ q x, tget t q = some x →
        ∃ x', tget (tput t e.last ne) q = some x' ∧ x'.dist ≤ x.dist := by
      intro q x hx
      rw [get_put]
      by_cases hq : q = e.last
      · subst hq
        refine ⟨ne, by simp, ?_⟩
        rw [hnd]; exact le_of_lt (hold _ hx).2
      · exact ⟨x, by simp [hq, hx], le_rfl' _⟩
    have hself' : tget (tput t e.last ne) p = some { r with visited := true } := by
      rw [get_put_ne _ _ (Ne.symm hvp)]; exact hM.self
    have hrlt : r.dist < max := lt_of_le_of_lt (LawfulCost.le_add_of_nonneg r.dist hw) hm
    refine ⟨⟨?_, ?_, ?_, ?_, ?_⟩, hself', ?_, ?_, ?_⟩
    · intro q x hx
      rcases old q x hx with ⟨hq, hxe⟩ | ⟨_, hxo⟩
      · subst hq; subst hxe
        left
        rcases hc.walk p _ hM.self with ⟨es, hes⟩ | ⟨_, _, hj⟩
        · exact ⟨es ++ [e], by rw [hnd]; exact Walk.snoc hes he hu⟩
        · exact absurd hrlt hj
      · exact hc.walk _ _ hxo
    · intro q x b hx hb
      rcases old q x hx with ⟨hq, hxe⟩ | ⟨_, hxo⟩
      · subst hq; subst hxe
        rw [hnb] at hb; cases hb
        refine ⟨hu, rfl, by rw [hnd]; exact hm, p, _, he, hself', rfl, ?_⟩
        rw [hnd]
      · obtain ⟨h1, h2, h3, u, eu, hu1, hu2, hu3, hu4⟩ := hc.chain q x b hxo hb
        exact ⟨h1, h2, h3, u, eu, hu1, keep u eu hu2 hu3, hu3, hu4⟩
    · intro q x hx hb
      rcases old q x hx with ⟨hq, hxe⟩ | ⟨_, hxo⟩
      · subst hxe; rw [hnb] at hb; cases hb
      · exact hc.root _ _ hxo hb
    · intro u v eu ev hu' huv hv' hvv
      have huo : tget t u = some eu := by
        rcases old u eu hu' with ⟨_, hxe⟩ | ⟨_, h⟩
        · subst hxe; rw [hnv] at huv; cases huv
        · exact h
      rcases old v ev hv' with ⟨hq, hxe⟩ | ⟨_, hvo⟩
      · subst hxe
        rw [hnd]
        exact le_trans' (hM.below u eu huo huv) (LawfulCost.le_add_of_nonneg _ hw)
      · exact hc.le u v eu ev huo huv hvo hvv
    · intro o ho
      obtain ⟨x, hx, hd⟩ := hc.orig o ho
      obtain ⟨x', h1, h2⟩ := mono o x hx
      exact ⟨x', h1, le_trans' h2 hd⟩
    · intro u eu hu' huv
      rcases old u eu hu' with ⟨_, hxe⟩ | ⟨_, h⟩
      · subst hxe; rw [hnv] at huv; cases huv
      · exact hM.below u eu h huv
    · intro u eu hup hu' huv e' he'
      rcases old u eu hu' with ⟨_, hxe⟩ | ⟨_, h⟩
      · subst hxe; rw [hnv] at huv; cases huv
      · exact (hM.relaxedOthers u eu hup h huv e' he').mono mono
    · intro e' he'
      rcases List.mem_cons.mp he' with h | h
      · subst h
        intro _ _
        exact ⟨ne, get_put_self _ _ _, by rw [hnd]; exact le_rfl' _⟩
      · exact (hM.relaxedSelf e' h).mono mono

/-- a settled entry is never touched again by `relax` -/
theorem relax_frozen (max d : α) (t : Table P S α) (e : Edge P S α) {q : P} {x : Entry P S α}
    (hx : tget t q = some x) (hv : x.visited = true) : tget (relax max d t e) q = some x := by
  rcases relax_spec max d t e with ⟨heq, _⟩ | ⟨_, _, ne, heq, _, _, _, hold⟩
  · rw [heq]; exact hx
  · rw [heq, get_put]
    by_cases hq : q = e.last
    · subst hq
      have := (hold _ hx).1
      rw [hv] at this; cases this
    · simp [hq, hx]

theorem foldl_relax_frozen (max d : α) (es : List (Edge P S α)) (t : Table P S α) {q : P} {x : Entry P S α}
    (hx : tget t q = some x) (hv : x.visited = true) : tget (es.foldl (relax max d) t) q = some x := by
  induction es generalizing t with
  | nil => exact hx
  | cons e rest ih => exact ih _ (relax_frozen max d t e hx hv)

theorem Mid.foldl {p : P} {r : Entry P S α} (hN : NonNeg g) (es : List (Edge P S α)) :
    ∀ (L : List (Edge P S α)) (t : Table P S α), (∀ e, e ∈ es → e ∈ g.adj p) →
      Mid g origins J max p r L t → Mid g origins J max p r (es.reverse ++ L) (es.foldl (Model.Dijkstra.relax max r.dist) t) := by
  induction es with
  | nil => intro L t _ h; simpa using h
  | cons e rest ih =>
    intro L t hsub h
    have h1 := Mid.relax hN h (hsub e (List.mem_cons_self))
    have h2 := ih (e :: L) _ (fun e' he' => hsub e' (List.mem_cons_of_mem _ he')) h1
    simpa using h2

/-- when all segments of `p` have been processed the outer invariant holds again -/
theorem Mid.toInv {t : Table P S α} {p : P} {r : Entry P S α} {L : List (Edge P S α)}
    (hM : Mid g origins J max p r L t) (hL : ∀ e, e ∈ g.adj p → e ∈ L) : Inv g origins J max t := by
  refine ⟨hM.core, ?_⟩
  intro u eu hu huv e he
  by_cases hup : u = p
  · subst hup
    have := hM.self
    rw [hu] at this; cases this
    exact hM.relaxedSelf e (hL e he)
  · exact hM.relaxedOthers u eu hup hu huv e he

/-- **the outer loop body preserves the invariant** when the popped point is a queued minimum -/
theorem Inv.expand {t t' : Table P S α} {p : P} (hN : NonNeg g)
    (hI : Inv g origins J max t) (hmin : IsMin t p) (hexp : expand g max t p = some t') :
    Inv g origins J max t' := by
  obtain ⟨ep, hp, hv, hm⟩ := hmin
  unfold Model.Dijkstra.expand markVisited at hexp
  rw [hp] at hexp
  simp at hexp
  subst hexp
  have h0 := Mid.ofInv hI hp hv hm
  have h1 := Mid.foldl hN (g.adj p) [] _ (fun e he => he) h0
  exact h1.toInv (fun e he => by simp [he])


/-! ### the abstract search: any sequence of `expand` steps at queued minima -/

/-- `Reach g max t0 tr t`: from table `t0` the outer loop can arrive at `t`; `tr` lists the popped points with
their distance at pop time, most recent first. -/
inductive Reach (g : Graph P S α) (max : α) (t0 : Table P S α) : List (P × α) → Table P S α → Prop
  | refl : Reach g max t0 [] t0
  | step {tr : List (P × α)} {t t' : Table P S α} {p : P} {ep : Entry P S α} :
      Reach g max t0 tr t → IsMin t p → tget t p = some ep → Model.Dijkstra.expand g max t p = some t' →
      Reach g max t0 ((p, ep.dist) :: tr) t'

theorem Reach.head {t0 t1 t : Table P S α} {tr : List (P × α)} {p : P} {ep : Entry P S α}
    (hmin : IsMin t0 p) (hp : tget t0 p = some ep) (hexp : Model.Dijkstra.expand g max t0 p = some t1)
    (h : Reach g max t1 tr t) : Reach g max t0 (tr ++ [(p, ep.dist)]) t := by
  induction h with
  | refl => exact Reach.step Reach.refl hmin hp hexp
  | step _ hm hq he ih => exact Reach.step ih hm hq he

theorem Reach.inv {t0 t : Table P S α} {tr : List (P × α)} (hN : NonNeg g)
    (h0 : Inv g origins J max t0) (h : Reach g max t0 tr t) : Inv g origins J max t := by
  induction h with
  | refl => exact h0
  | step _ hmin _ hexp ih => exact ih.expand hN hmin hexp

theorem expand_frozen {t t' : Table P S α} {p q : P} {x : Entry P S α}
    (hexp : Model.Dijkstra.expand g max t p = some t') (hx : tget t q = some x) (hv : x.visited = true) :
    tget t' q = some x := by
  unfold Model.Dijkstra.expand markVisited at hexp
  cases hp : tget t p with
  | none => simp [hp] at hexp
  | some r =>
    simp [hp] at hexp
    subst hexp
    apply foldl_relax_frozen _ _ _ _ _ hv
    rw [get_put]
    by_cases hq : q = p
    · subst hq
      rw [hp] at hx; cases hx
      cases x; simp at hv; simp [hv]
    · simp [hq, hx]

theorem expand_self {t t' : Table P S α} {p : P} {r : Entry P S α}
    (hexp : Model.Dijkstra.expand g max t p = some t') (hp : tget t p = some r) :
    tget t' p = some { r with visited := true } := by
  unfold Model.Dijkstra.expand markVisited at hexp
  simp [hp] at hexp
  subst hexp
  exact foldl_relax_frozen _ _ _ _ (get_put_self _ _ _) rfl

/-- every popped point stays in the table, settled, with the distance it had when popped -/
theorem Reach.trace_settled {t0 t : Table P S α} {tr : List (P × α)} (h : Reach g max t0 tr t) :
    ∀ q d, (q, d) ∈ tr → ∃ x, tget t q = some x ∧ x.visited = true ∧ x.dist = d := by
  induction h with
  | refl => intro q d hm; simp at hm
  | step _ hmin hp hexp ih =>
    intro q d hm
    rcases List.mem_cons.mp hm with h | h
    · cases h
      exact ⟨_, expand_self hexp hp, rfl, rfl⟩
    · obtain ⟨x, hx, hv, hd⟩ := ih q d h
      exact ⟨x, expand_frozen hexp hx hv, hv, hd⟩

theorem Reach.nondecreasing {t0 t : Table P S α} {tr : List (P × α)} (hN : NonNeg g)
    (h0 : Inv g origins J max t0) (h : Reach g max t0 tr t) :
    tr.Pairwise (fun later earlier => earlier.2 ≤ later.2) := by
  induction h with
  | refl => exact List.Pairwise.nil
  | @step tr t t' p ep hr hmin hp hexp ih =>
    refine List.Pairwise.cons ?_ ih
    intro ⟨q, d⟩ hm
    obtain ⟨x, hx, hv, hd⟩ := hr.trace_settled q d hm
    obtain ⟨ep', hp', hpv, _⟩ := hmin
    rw [hp] at hp'; cases hp'
    have := (hr.inv hN h0).core.le q p x ep hx hv hp hpv
    simpa [hd] using this

/-! ### optimality -/

theorem walk_nonneg {p : P} {c : α} {es : List (Edge P S α)} (hN : NonNeg g)
    (h : Walk g origins p c es) : (Cost.zero : α) ≤ c := by
  induction h with
  | origin _ => exact le_rfl' _
  | snoc _ he hu ih => exact le_trans' ih (LawfulCost.le_add_of_nonneg _ (hN _ _ he hu))

/-- A walk cheaper than the limit either ends at a recorded point whose recorded distance is at most the walk's
cost, or it leaves the settled set through a queued point that is at most that far ("every frontier key is the
best distance through settled points"). -/
theorem walk_exit {t : Table P S α} (hN : NonNeg g) (hI : Inv g origins J max t)
    {p : P} {c : α} {es : List (Edge P S α)} (hw : Walk g origins p c es) (hc : c < max) :
    (∃ e, tget t p = some e ∧ e.dist ≤ c) ∨
    (∃ y ey, tget t y = some ey ∧ ey.visited = false ∧ ey.dist ≤ c) := by
  induction hw with
  | origin ho => exact Or.inl (hI.core.orig _ ho)
  | @snoc u c' es' e hw' he hu ih =>
    have hw0 : (Cost.zero : α) ≤ e.weight := hN _ _ he hu
    have hstep : c' ≤ c' + e.weight := LawfulCost.le_add_of_nonneg _ hw0
    rcases ih (lt_of_le_of_lt hstep hc) with ⟨eu, heu, hd⟩ | ⟨y, ey, hy, hyv, hd⟩
    · by_cases hv : eu.visited = true
      · have hle : eu.dist + e.weight ≤ c' + e.weight := LawfulCost.add_le_add_right _ hd
        obtain ⟨ev, hev, hd'⟩ := hI.relaxed u eu heu hv e he hu (lt_of_le_of_lt hle hc)
        exact Or.inl ⟨ev, hev, le_trans' hd' hle⟩
      · have hv' : eu.visited = false := by simpa using hv
        exact Or.inr ⟨u, eu, heu, hv', le_trans' hd hstep⟩
    · exact Or.inr ⟨y, ey, hy, hyv, le_trans' hd hstep⟩

theorem Core.lt_or_root {t : Table P S α} (hc : Core g origins J max t) {p : P} {e : Entry P S α}
    (hp : tget t p = some e) :
    e.dist < max ∨ (p ∈ origins ∧ e.dist = Cost.zero) ∨ (J p ∧ e.back = none ∧ ¬ e.dist < max) := by
  by_cases hb : e.back = none
  · rcases hc.root p e hp hb with h | ⟨h1, h2⟩
    · exact Or.inr (Or.inl h)
    · exact Or.inr (Or.inr ⟨h1, hb, h2⟩)
  · obtain ⟨b, hb'⟩ := Option.ne_none_iff_exists'.mp hb
    exact Or.inl (hc.chain p e b hp hb').2.2.1

/-- **settled entries carry final distances**, in every state of the search (this is what makes the early stop
of `ExpandSearchTo` right) -/
theorem settled_le_walk {t : Table P S α} (hN : NonNeg g) (hI : Inv g origins J max t)
    {p : P} {e : Entry P S α} (hp : tget t p = some e) (hv : e.visited = true)
    (hnj : ¬ (J p ∧ e.back = none ∧ ¬ e.dist < max))
    {c : α} {es : List (Edge P S α)} (hw : Walk g origins p c es) : e.dist ≤ c := by
  by_cases hc : c < max
  · rcases walk_exit hN hI hw hc with ⟨e', he', hd⟩ | ⟨y, ey, hy, hyv, hd⟩
    · rw [hp] at he'; cases he'; exact hd
    · exact le_trans' (hI.core.le p y e ey hp hv hy hyv) hd
  · rcases hI.core.lt_or_root hp with h | ⟨_, h⟩ | h
    · exact le_trans' (le_of_lt h) (le_of_not_lt hc)
    · rw [h]; exact walk_nonneg hN hw
    · exact absurd h hnj


/-! ### initial tables -/

/-- a table without settled entries and without segments satisfies the invariant as soon as every entry is an
origin at distance 0 (or an allowed sentinel) and every origin is present -/
theorem Inv.ofFresh {t : Table P S α}
    (h : ∀ q x, tget t q = some x → x.visited = false ∧ x.back = none ∧
      ((q ∈ origins ∧ x.dist = Cost.zero) ∨ (J q ∧ ¬ x.dist < max)))
    (ho : ∀ o, o ∈ origins → ∃ x, tget t o = some x ∧ x.dist ≤ Cost.zero) :
    Inv g origins J max t := by
  refine ⟨⟨?_, ?_, ?_, ?_, ho⟩, ?_⟩
  · intro q x hx
    obtain ⟨_, hb, hcase⟩ := h q x hx
    rcases hcase with ⟨hq, hd⟩ | ⟨hj, hd⟩
    · left; exact ⟨[], by rw [hd]; exact Walk.origin hq⟩
    · right; exact ⟨hj, hb, hd⟩
  · intro q x b hx hb
    rw [(h q x hx).2.1] at hb; cases hb
  · intro q x hx _
    exact (h q x hx).2.2
  · intro u v eu ev hu huv _ _
    rw [(h u eu hu).1] at huv; cases huv
  · intro u eu hu huv
    rw [(h u eu hu).1] at huv; cases huv

theorem initTable_get_aux (os : List P) :
    ∀ (seen : List P) (t : Table P S α),
      (∀ q, tget t q = if q ∈ seen then some { visited := false, dist := Cost.zero, back := none } else none) →
      ∀ q, tget (os.foldl (fun t o => match tget t o with
          | some _ => t
          | none => tput t o { visited := false, dist := Cost.zero, back := none }) t) q
        = if q ∈ seen ++ os then some { visited := false, dist := Cost.zero, back := none } else none := by
  induction os with
  | nil => intro seen t h q; simpa using h q
  | cons o rest ih =>
    intro seen t h q
    have key : ∀ q, tget (match tget t o with
          | some _ => t
          | none => tput t o { visited := false, dist := Cost.zero, back := none }) q
        = if q ∈ seen ++ [o] then some { visited := false, dist := Cost.zero, back := none } else none := by
      intro q
      by_cases hos : o ∈ seen
      · have := h o
        simp [hos] at this
        simp [this]
        rw [h q]
        by_cases hq : q = o
        · subst hq; simp [hos]
        · simp [hq]
      · have := h o
        simp [hos] at this
        simp [this]
        rw [get_put, h q]
        by_cases hq : q = o
        · subst hq; simp
        · simp [hq]
    have := ih (seen ++ [o]) _ key q
    simpa using this

theorem initTable_get (origins : List P) (q : P) :
    tget (initTable origins : Table P S α) q =
      if q ∈ origins then some { visited := false, dist := Cost.zero, back := none } else none := by
  have := initTable_get_aux (S := S) (α := α) origins [] [] (by intro q; simp [tget]) q
  simp only [List.nil_append] at this
  exact this

/-- `NewShortestPathSearchFromPoint`'s table satisfies the loop invariant (no sentinel allowed) -/
theorem Inv.init (g : Graph P S α) (origins : List P) (max : α) :
    Inv g origins (fun _ => False) max (initTable origins) := by
  apply Inv.ofFresh
  · intro q x hx
    rw [initTable_get] at hx
    by_cases hq : q ∈ origins
    · simp [hq] at hx; subst hx; exact ⟨rfl, rfl, Or.inl ⟨hq, rfl⟩⟩
    · simp [hq] at hx
  · intro o ho
    exact ⟨{ visited := false, dist := Cost.zero, back := none }, by rw [initTable_get]; simp [ho], le_rfl' _⟩

/-- … and so does `ExpandSearchTo`'s table with the `+Inf` sentinel for a destination that is not the origin -/
theorem Inv.initTo (g : Graph P S α) (origins : List P) (max inf : α) (dest : P)
    (hd : dest ∉ origins) (hinf : ¬ inf < max) :
    Inv g origins (fun q => q = dest) max
      (tput (initTable origins) dest { visited := false, dist := inf, back := none }) := by
  apply Inv.ofFresh
  · intro q x hx
    rw [get_put, initTable_get] at hx
    by_cases hq : q = dest
    · simp [hq] at hx; subst hx; exact ⟨rfl, rfl, Or.inr ⟨hq, hinf⟩⟩
    · by_cases hqo : q ∈ origins
      · simp [hq, hqo] at hx; subst hx; exact ⟨rfl, rfl, Or.inl ⟨hqo, rfl⟩⟩
      · simp [hq, hqo] at hx
  · intro o ho
    have : o ≠ dest := fun h => hd (h ▸ ho)
    exact ⟨{ visited := false, dist := Cost.zero, back := none },
      by rw [get_put, initTable_get]; simp [ho, this], le_rfl' _⟩

/-! ### BuildRoute -/

theorem buildRoute_sound {t : Table P S α} (hN : NonNeg g) (hF : FirstOk g) (hc : Core g origins J max t) :
    ∀ (n : Nat) (p : P) (acc : List (Step P S α)) (e : Entry P S α) (o : P) (steps : List (Step P S α)),
      tget t p = some e → ¬ (J p ∧ e.back = none ∧ ¬ e.dist < max) →
      buildRoute t n p acc = some (o, steps) →
      ∃ pre, steps = pre ++ acc ∧ RouteTo g origins o pre p e.dist := by
  intro n
  induction n with
  | zero => intro p acc e o steps _ _ h; simp [buildRoute] at h
  | succ n ih =>
    intro p acc e o steps hp hnj h
    simp only [buildRoute, hp] at h
    cases hb : e.back with
    | none =>
      simp [hb] at h
      obtain ⟨h1, h2⟩ := h
      subst h1; subst h2
      have : p ∈ origins ∧ e.dist = Cost.zero := by
        rcases hc.root p e hp hb with h | ⟨hj, hnlt⟩
        · exact h
        · exact absurd ⟨hj, hb, hnlt⟩ hnj
      exact ⟨[], by simp, by rw [this.2]; exact RouteTo.nil this.1⟩
    | some b =>
      simp [hb] at h
      obtain ⟨hu, hl, hlt, u, eu, hadj, heu, _, hd⟩ := hc.chain p e b hp hb
      have hfirst : b.first = u := hF u b hadj
      rw [hfirst] at h
      have hw : (Cost.zero : α) ≤ b.weight := hN u b hadj hu
      have hult : eu.dist < max := by
        apply lt_of_le_of_lt (LawfulCost.le_add_of_nonneg eu.dist hw)
        rw [← hd]; exact hlt
      obtain ⟨pre, hpre, hroute⟩ := ih u _ eu o steps heu (fun hj => hj.2.2 hult) h
      refine ⟨pre ++ [{ dest := p, via := b, cost := e.dist }], by simp [hpre], ?_⟩
      have := RouteTo.snoc hroute hadj hfirst hu
      rw [hl, ← hd] at this
      exact this

/-! ### the heap-driven run is a run of the abstract search -/

theorem isMinB_sound {t : Table P S α} {p : P} (h : isMinB t p = true) : IsMin t p := by
  unfold isMinB at h
  cases hp : tget t p with
  | none => simp [hp] at h
  | some ep =>
    simp [hp] at h
    obtain ⟨hv, hall⟩ := h
    refine ⟨ep, hp, hv, ?_⟩
    intro q eq hq hqv hlt
    have := hall q eq (mem_of_get hq)
    simp [hq, hqv, hlt] at this

theorem allVisited_sound {t : Table P S α} (h : allVisited t = true) {p : P} {e : Entry P S α}
    (hp : tget t p = some e) : e.visited = true := by
  unfold allVisited at h
  rw [List.all_eq_true] at h
  exact h (p, e) (mem_of_get hp)

theorem foldl_relaxH_none (max d : α) (es : List (Edge P S α)) :
    es.foldl (relaxH max d) (none : Option (HState P S α)) = none := by
  induction es with
  | nil => rfl
  | cons e rest ih => simpa [List.foldl, relaxH] using ih

theorem foldl_relaxH_table (max d : α) (es : List (Edge P S α)) :
    ∀ (s s' : HState P S α), es.foldl (relaxH max d) (some s) = some s' →
      s'.t = es.foldl (Model.Dijkstra.relax max d) s.t := by
  induction es with
  | nil => intro s s' h; simp at h; subst h; rfl
  | cons e rest ih =>
    intro s s' h
    simp only [List.foldl] at h
    cases hstep : relaxH max d (some s) e with
    | none => rw [hstep, foldl_relaxH_none] at h; cases h
    | some s1 =>
      rw [hstep] at h
      have ht : s1.t = Model.Dijkstra.relax max d s.t e := by
        unfold relaxH at hstep
        unfold Model.Dijkstra.relax
        cases hk : (relaxK max d s.t e).2 <;> simp [hk] at hstep
        · subst hstep; rfl
        · obtain ⟨h', _, hs⟩ := hstep; subst hs; rfl
        · obtain ⟨h', _, hs⟩ := hstep; subst hs; rfl
      have := ih s1 s' h
      simp only [List.foldl]
      rw [this, ht]

end inv
section term
variable {P S α : Type} [DecidableEq P] [Cost α]
variable [LawfulCost α]
variable {g : Graph P S α} {max : α}

/-! ### `BuildRoute` terminates: back-pointers lead to points that were settled strictly earlier -/

/-- more fuel does not change a finished `buildRoute` -/
theorem buildRoute_mono (t : Table P S α) :
    ∀ (n : Nat) (p : P) (acc : List (Step P S α)) (r : P × List (Step P S α)),
      buildRoute t n p acc = some r → buildRoute t (n + 1) p acc = some r := by
  intro n
  induction n with
  | zero => intro p acc r h; simp [buildRoute] at h
  | succ n ih =>
    intro p acc r h
    rw [buildRoute] at h ⊢
    cases hp : tget t p with
    | none => rw [hp] at h; simpa using h
    | some e =>
      rw [hp] at h
      cases hb : e.back with
      | none => simp [hb] at h; simp [hb, h]
      | some b =>
        simp [hb] at h
        simp [hb]
        exact ih _ _ _ h

theorem buildRoute_mono_le (t : Table P S α) {n m : Nat} (hnm : n ≤ m) {p : P} {acc : List (Step P S α)}
    {r : P × List (Step P S α)} (h : buildRoute t n p acc = some r) : buildRoute t m p acc = some r := by
  induction hnm with
  | refl => exact h
  | step _ ih => exact buildRoute_mono t _ _ _ _ ih

/-- every popped point's back-pointer starts at a point popped earlier (`tr` is most recent first) -/
def Ranked (t : Table P S α) : List (P × α) → Prop
  | [] => True
  | (q, _) :: l => Ranked t l ∧ ∀ e b, tget t q = some e → e.back = some b → b.first ∈ l.map (·.1)

theorem Ranked.terminates {t : Table P S α} :
    ∀ (l : List (P × α)), Ranked t l → ∀ u, u ∈ l.map (·.1) → ∀ acc, ∃ r, buildRoute t l.length u acc = some r := by
  intro l
  induction l with
  | nil => intro _ u hu; simp at hu
  | cons hd l ih =>
    obtain ⟨q, d⟩ := hd
    intro hR u hu acc
    obtain ⟨hRl, hq⟩ := hR
    by_cases huq : u = q
    · subst huq
      simp only [List.length_cons, buildRoute]
      cases hp : tget t u with
      | none => exact ⟨_, rfl⟩
      | some e =>
        cases hb : e.back with
        | none => simp [hb]
        | some b =>
          simp only [hb]
          exact ih hRl b.first (hq e b hp hb) _
    · have hu' : u ∈ l.map (·.1) := by
        simp at hu
        rcases hu with h | h
        · exact absurd h huq
        · simpa using h
      obtain ⟨r, hr⟩ := ih hRl u hu' acc
      exact ⟨r, buildRoute_mono t _ _ _ _ hr⟩

/-- where a back-pointer of the table after `relax` comes from -/
theorem relax_back (d : α) (t : Table P S α) (e : Edge P S α) {q : P} {x : Entry P S α} {b : Edge P S α}
    (hx : tget (relax max d t e) q = some x) (hb : x.back = some b) :
    (∃ x0, tget t q = some x0 ∧ x0.back = some b) ∨ b = e := by
  rcases relax_spec max d t e with ⟨heq, _⟩ | ⟨_, _, ne, heq, _, _, hnb, _⟩
  · rw [heq] at hx; exact Or.inl ⟨x, hx, hb⟩
  · rw [heq, get_put] at hx
    by_cases hq : q = e.last
    · simp [hq] at hx; subst hx; rw [hnb] at hb; cases hb; exact Or.inr rfl
    · simp [hq] at hx; exact Or.inl ⟨x, hx, hb⟩

theorem foldl_relax_back (d : α) (es : List (Edge P S α)) :
    ∀ (t : Table P S α) {q : P} {x : Entry P S α} {b : Edge P S α},
      tget (es.foldl (relax max d) t) q = some x → x.back = some b →
      (∃ x0, tget t q = some x0 ∧ x0.back = some b) ∨ b ∈ es := by
  induction es with
  | nil => intro t q x b hx hb; exact Or.inl ⟨x, hx, hb⟩
  | cons e rest ih =>
    intro t q x b hx hb
    rcases ih (relax max d t e) hx hb with ⟨x0, hx0, hb0⟩ | hmem
    · rcases relax_back d t e hx0 hb0 with h | h
      · exact Or.inl h
      · exact Or.inr (h ▸ List.mem_cons_self)
    · exact Or.inr (List.mem_cons_of_mem _ hmem)

theorem expand_back {t t' : Table P S α} {p q : P} {x : Entry P S α} {b : Edge P S α}
    (hexp : Model.Dijkstra.expand g max t p = some t') (hx : tget t' q = some x) (hb : x.back = some b) :
    (∃ x0, tget t q = some x0 ∧ x0.back = some b) ∨ b ∈ g.adj p := by
  unfold Model.Dijkstra.expand markVisited at hexp
  cases hp : tget t p with
  | none => simp [hp] at hexp
  | some r =>
    simp [hp] at hexp
    subst hexp
    rcases foldl_relax_back r.dist (g.adj p) _ hx hb with ⟨x0, hx0, hb0⟩ | h
    · left
      rw [get_put] at hx0
      by_cases hq : q = p
      · subst hq; simp at hx0; subst hx0; exact ⟨r, hp, hb0⟩
      · simp [hq] at hx0; exact ⟨x0, hx0, hb0⟩
    · exact Or.inr h

theorem Ranked.frozen {t t' : Table P S α} (l : List (P × α))
    (hfz : ∀ q, q ∈ l.map (·.1) → ∀ x, tget t q = some x → tget t' q = some x)
    (hin : ∀ q, q ∈ l.map (·.1) → ∃ x, tget t q = some x)
    (h : Ranked t l) : Ranked t' l := by
  induction l with
  | nil => trivial
  | cons hd l ih =>
    obtain ⟨q, d⟩ := hd
    obtain ⟨hl, hq⟩ := h
    refine ⟨ih (fun q' hq' => hfz q' (by simp at hq' ⊢; exact Or.inr hq'))
      (fun q' hq' => hin q' (by simp at hq' ⊢; exact Or.inr hq')) hl, ?_⟩
    intro e b he hb
    obtain ⟨x0, hx0⟩ := hin q (by simp)
    have := hfz q (by simp) x0 hx0
    rw [this] at he; cases he
    exact hq e b hx0 hb

/-- along every run: popped points are ranked, and every back-pointer starts at a popped point -/
theorem Reach.ranked {t0 t : Table P S α} {tr : List (P × α)} (hF : FirstOk g)
    (h0 : ∀ q x, tget t0 q = some x → x.back = none) (h : Reach g max t0 tr t) :
    Ranked t tr ∧ ∀ q x b, tget t q = some x → x.back = some b → b.first ∈ tr.map (·.1) := by
  induction h with
  | refl =>
    refine ⟨trivial, ?_⟩
    intro q x b hx hb
    rw [h0 q x hx] at hb; cases hb
  | @step tr t t' p ep hr hmin hp hexp ih =>
    obtain ⟨hR, hall⟩ := ih
    have hall' : ∀ q x b, tget t' q = some x → x.back = some b → b.first ∈ ((p, ep.dist) :: tr).map (·.1) := by
      intro q x b hx hb
      rcases expand_back hexp hx hb with ⟨x0, hx0, hb0⟩ | hadj
      · simp; exact Or.inr (by simpa using hall q x0 b hx0 hb0)
      · simp; exact Or.inl (hF p b hadj)
    refine ⟨⟨?_, ?_⟩, hall'⟩
    · apply Ranked.frozen tr _ _ hR
      · intro q hq x hx
        simp at hq
        obtain ⟨d, hqd⟩ := hq
        obtain ⟨x', hx', hv, _⟩ := hr.trace_settled q d hqd
        rw [hx] at hx'; cases hx'
        exact expand_frozen hexp hx hv
      · intro q hq
        simp at hq
        obtain ⟨d, hqd⟩ := hq
        obtain ⟨x', hx', _, _⟩ := hr.trace_settled q d hqd
        exact ⟨x', hx'⟩
    · intro e b he hb
      have := expand_self hexp hp
      rw [this] at he; cases he
      simpa using hall p ep b hp hb


/-- `BuildRoute` ends for every point, within (number of settled points + 1) iterations -/
theorem buildRoute_terminates {origins : List P} {t : Table P S α} {tr : List (P × α)} (hF : FirstOk g)
    (h : Reach g max (initTable origins) tr t) (p : P) (acc : List (Step P S α)) :
    ∃ r, buildRoute t (tr.length + 1) p acc = some r := by
  have h0 : ∀ q x, tget (initTable origins : Table P S α) q = some x → x.back = none := by
    intro q x hx
    rw [initTable_get] at hx
    by_cases hq : q ∈ origins
    · simp [hq] at hx; subst hx; rfl
    · simp [hq] at hx
  obtain ⟨hR, hall⟩ := h.ranked hF h0
  simp only [buildRoute]
  cases hp : tget t p with
  | none => exact ⟨_, rfl⟩
  | some e =>
    cases hb : e.back with
    | none => simp [hb]
    | some b =>
      simp only [hb]
      exact hR.terminates tr b.first (hall p e b hp hb) _

end term
end B6.Lemmas.Dijkstra
