import B6.Lemmas.ProtoServiceInv
/-!
Deadlock freedom of the lock-protocol model (C40): the phase/bounds invariant (`WeakInv`, no hypothesis on the
requests) and the enabledness argument.
-/
namespace B6.Lemmas.ProtoService
open B6.Model.Proto B6.Model.Proto.Service

structure WeakInv (s : State) : Prop where
  ph : ∀ (j : Nat) (c : Client), s.clients[j]? = some c → phaseOk c = true
  ob : ∀ (j : Nat) (c : Client) (o : Nat), s.clients[j]? = some c → c.obj = some o → o < s.heap.length
  mb : ∀ w o, mfind s.map w = some o → o < s.heap.length

theorem weakInv_init (base : World) (v0 : View) (reqs : List Req) : WeakInv (init base v0 reqs) := by
  have h := inv_init base v0 reqs
  exact ⟨fun j c hj => (h.cl j c hj).phase, fun j c o hj ho => (h.cl j c hj).bound o ho, h.mbound⟩

theorem weakInv_step (pref : Bool) (s s' : State) (h : WeakInv s) (hs : s' ∈ step pref s) : WeakInv s' := by
  obtain ⟨i, c, hc, hs⟩ := mem_forWorkers.mp hs
  have hph := h.ph i c hc
  -- a step that keeps heap and map and touches only client `i`
  have key : ∀ (c' : Client), phaseOk c' = true → (∀ o, c'.obj = some o → o < s.heap.length) →
      ∀ s'', s''.clients = s.clients.set i c' → s''.heap = s.heap → s''.map = s.map → WeakInv s'' := by
    intro c' hp hb s'' e1 e2 e3
    refine ⟨?_, ?_, by rw [e2, e3]; exact h.mb⟩
    · intro j cj hj
      rw [e1] at hj
      rcases get_set_cases hc hj with ⟨_, rfl⟩ | ⟨_, hj⟩
      · exact hp
      · exact h.ph j cj hj
    · intro j cj o hj ho
      rw [e1] at hj; rw [e2]
      rcases get_set_cases hc hj with ⟨_, rfl⟩ | ⟨_, hj⟩
      · exact hb o ho
      · exact h.ob j cj o hj ho
  -- a step that creates a world object for `wid`
  have keyGrow : ∀ (c' : Client) (wid : Nat), phaseOk c' = true → (∀ o, c'.obj = some o → o ≤ s.heap.length) →
      ∀ s'', s''.clients = s.clients.set i c' → s''.heap = s.heap ++ [s.base] →
        s''.map = s.map ++ [(wid, s.heap.length)] → WeakInv s'' := by
    intro c' wid hp hb s'' e1 e2 e3
    refine ⟨?_, ?_, ?_⟩
    · intro j cj hj
      rw [e1] at hj
      rcases get_set_cases hc hj with ⟨_, rfl⟩ | ⟨_, hj⟩
      · exact hp
      · exact h.ph j cj hj
    · intro j cj o hj ho
      rw [e1] at hj; rw [e2]
      simp
      rcases get_set_cases hc hj with ⟨_, rfl⟩ | ⟨_, hj⟩
      · have := hb o ho; omega
      · have := h.ob j cj o hj ho; omega
    · intro w o hm
      rw [e3, mfind_append] at hm
      rw [e2]; simp
      split at hm
      · rename_i x hx; simp at hm; subst hm; have := h.mb w _ hx; omega
      · split at hm
        · simp at hm; omega
        · simp at hm
  have hob := h.ob i c
  unfold clientStep at hs
  cases hpc : c.pc <;> simp only [hpc] at hs
  · simp only [mem_guard] at hs
    obtain ⟨_, rfl⟩ := hs
    refine key { c with pc := .find } ?_ (fun o ho => hob o hc ho) _ rfl rfl rfl
    unfold phaseOk at hph ⊢; cases hr : c.req <;> simp [hr, hpc] at hph ⊢ <;> exact hph
  · cases hreq : c.req <;> simp only [hreq] at hs
    · split at hs
      · rename_i o ho
        simp at hs; subst hs
        exact key _ (by simp [phaseOk]) (fun o' ho' => by simp at ho'; subst ho'; exact h.mb _ _ ho) _ rfl rfl rfl
      · simp at hs; subst hs
        exact keyGrow _ _ (by simp [phaseOk]) (fun o' ho' => by simp at ho'; omega) _ rfl rfl rfl
    · split at hs
      · rename_i o ho
        simp at hs; subst hs
        exact key _ (by simp [phaseOk]) (fun o' ho' => by simp at ho'; subst ho'; exact h.mb _ _ ho) _ rfl rfl rfl
      · simp at hs; subst hs
        exact keyGrow _ _ (by simp [phaseOk]) (fun o' ho' => by simp at ho'; omega) _ rfl rfl rfl
    · simp at hs
    · simp at hs
  · split at hs
    · rename_i wid _ hreq
      simp at hs; subst hs
      refine key { c with pc := .finalRUnlock } ?_ (fun o ho => hob o hc ho) _ rfl rfl rfl
      unfold phaseOk at hph ⊢; simp [hreq, hpc] at hph ⊢; exact hph
    · rename_i wid rs o hreq ho
      split at hs
      · rename_i w hw
        simp at hs; subst hs
        refine key { c with pc := .upRUnlock, change := evalRules w rs } ?_ (fun o ho => hob o hc ho) _ rfl rfl rfl
        unfold phaseOk at hph ⊢; simp [hreq, hpc] at hph ⊢; exact hph
      · simp at hs
    · simp at hs
  · simp at hs; subst hs
    refine key { c with pc := .wlock } ?_ (fun o ho => hob o hc ho) _ rfl rfl rfl
    unfold phaseOk at hph ⊢; cases hr : c.req <;> simp [hr, hpc] at hph ⊢ <;> exact hph
  · simp only [mem_guard] at hs
    obtain ⟨_, rfl⟩ := hs
    refine key { c with pc := .apply } ?_ (fun o ho => hob o hc ho) _ rfl rfl rfl
    unfold phaseOk at hph ⊢; cases hr : c.req <;> simp [hr, hpc] at hph ⊢ <;> exact hph
  · split at hs
    · rename_i o ho
      split at hs
      · rename_i w hw
        simp at hs; subst hs
        have hk := key { c with pc := .wunlock, logged := true }
          (by unfold phaseOk at hph ⊢; cases hr : c.req <;> simp [hr, hpc] at hph ⊢ <;> exact hph)
          (fun o ho => hob o hc ho)
          { s with clients := s.clients.set i { c with pc := .wunlock, logged := true } } rfl rfl rfl
        exact ⟨hk.ph, fun j cj o' hj ho' => by simp [setClient]; exact hk.ob j cj o' hj ho',
          fun w' o' hm => by simp [setClient]; exact hk.mb w' o' hm⟩
      · simp at hs
    · simp at hs
  · simp at hs; subst hs
    refine key { c with pc := .rlock2 } ?_ (fun o ho => hob o hc ho) _ rfl rfl rfl
    unfold phaseOk at hph ⊢; cases hr : c.req <;> simp [hr, hpc] at hph ⊢ <;> exact hph
  · simp only [mem_guard] at hs
    obtain ⟨_, rfl⟩ := hs
    refine key { c with pc := .finalRUnlock } ?_ (fun o ho => hob o hc ho) _ rfl rfl rfl
    unfold phaseOk at hph ⊢; cases hr : c.req <;> simp [hr, hpc] at hph ⊢ <;> exact hph
  · simp at hs; subst hs
    refine key { c with pc := .done } ?_ (fun o ho => hob o hc ho) _ rfl rfl rfl
    unfold phaseOk at hph ⊢; cases hr : c.req <;> simp [hr, hpc] at hph ⊢ <;> exact hph
  · cases hreq : c.req <;> simp only [hreq] at hs
    · simp at hs
    · simp at hs
    · rename_i wid
      split at hs
      · rename_i o ho
        simp at hs; subst hs
        obtain ⟨hnone, hunl⟩ := phase_mapop_obj hph hpc
        have hfi : (flushHolders s.clients o)[i]? = some c := by
          rw [flush_getElem? _ _ _ _ hc]; simp [hnone]
        refine ⟨?_, ?_, ?_⟩
        · intro j cj hj
          simp only [setClient] at hj
          rcases get_set_cases hfi hj with ⟨_, rfl⟩ | ⟨_, hj⟩
          · simp [phaseOk]
          · obtain ⟨c0, hc0, rfl⟩ := flush_get hj
            unfold flushElem
            split
            · rename_i hfl; exact (phase_flush (h.ph j c0 hc0) hfl.1 hfl.2).1
            · exact h.ph j c0 hc0
        · intro j cj o' hj ho'
          simp only [setClient] at hj ⊢
          rcases get_set_cases hfi hj with ⟨_, rfl⟩ | ⟨_, hj⟩
          · simp [hnone] at ho'
          · obtain ⟨c0, hc0, rfl⟩ := flush_get hj
            have : c0.obj = some o' := by
              unfold flushElem at ho'
              split at ho' <;> exact ho'
            exact h.ob j c0 o' hc0 this
        · intro w o' hm
          simp only [setClient] at hm ⊢
          rw [mfind_erase] at hm
          split at hm
          · simp at hm
          · exact h.mb w o' hm
      · simp at hs; subst hs
        exact key { c with req := .delete wid, pc := .done, logged := true } (by simp [phaseOk])
          (fun o ho => hob o hc ho) _ rfl rfl rfl
    · simp at hs; subst hs
      exact key { c with req := .list, pc := .done, logged := true } (by simp [phaseOk])
        (fun o ho => hob o hc ho) _ rfl rfl rfl
  · simp at hs

/-! ### enabledness -/

/-- waiting for a lock, or finished -/
def blocked (c : Client) : Bool :=
  c.pc == Pc.rlock || c.pc == Pc.rlock2 || c.pc == Pc.wlock || c.pc == Pc.done

theorem heap_get {s : State} {o : Nat} (h : o < s.heap.length) : ∃ w, s.heap[o]? = some w :=
  ⟨s.heap[o], List.getElem?_eq_getElem h⟩

/-- a client that is not waiting for a lock can always take its step -/
theorem enabled_unblocked (pref : Bool) (s : State) (h : WeakInv s) (i : Nat) (c : Client)
    (hc : s.clients[i]? = some c) (hb : blocked c = false) : clientStep pref s i c ≠ [] := by
  have hph := h.ph i c hc
  unfold clientStep
  cases hpc : c.pc <;> simp [blocked, hpc] at hb ⊢
  · -- find
    unfold phaseOk at hph
    cases hreq : c.req <;> simp [hreq, hpc] at hph ⊢
    · split <;> simp
    · split <;> simp
  · -- eval
    unfold phaseOk at hph
    cases hreq : c.req <;> simp [hreq, hpc] at hph ⊢
    · cases ho : c.obj with
      | none => simp [ho] at hph
      | some o =>
        obtain ⟨w, hw⟩ := heap_get (h.ob i c o hc ho)
        simp [hw]
  · -- apply
    unfold phaseOk at hph
    cases hreq : c.req <;> simp [hreq, hpc] at hph
    cases ho : c.obj with
    | none => simp [ho] at hph
    | some o =>
      obtain ⟨w, hw⟩ := heap_get (h.ob i c o hc ho)
      simp [hw]
  · -- mapop
    unfold phaseOk at hph
    cases hreq : c.req <;> simp [hreq, hpc] at hph ⊢
    · split <;> simp

theorem step_ne_nil_of (pref : Bool) (s : State) (i : Nat) (c : Client) (hc : s.clients[i]? = some c)
    (h : clientStep pref s i c ≠ []) : step pref s ≠ [] := by
  obtain ⟨x, hx⟩ := List.exists_mem_of_ne_nil _ h
  intro e
  have : x ∈ step pref s := mem_forWorkers.mpr ⟨i, c, hc, hx⟩
  rw [e] at this
  simp at this

/-- no reachable state is deadlocked: if some client has not finished, some client can move -/
theorem not_deadlocked (pref : Bool) (s : State) (hw : WeakInv s) (hl : LockInv s) :
    deadlocked (step pref) terminal s = false := by
  unfold deadlocked
  cases ht : terminal s
  · simp only [Bool.not_false, Bool.and_true]
    -- some client is not done
    have hnd : ∃ c ∈ s.clients, ¬ (c.pc == Pc.done) = true := by
      unfold terminal at ht
      have := (List.all_eq_false (p := fun c => c.pc == Pc.done) (l := s.clients)).mp ht
      exact this
    obtain ⟨c0, hc0m, hc0⟩ := hnd
    obtain ⟨i0, hi0⟩ := List.getElem?_of_mem hc0m
    have hne : step pref s ≠ [] := by
      by_cases hex : ∃ (i : Nat) (c : Client), s.clients[i]? = some c ∧ blocked c = false
      · obtain ⟨i, c, hc, hb⟩ := hex
        exact step_ne_nil_of pref s i c hc (enabled_unblocked pref s hw i c hc hb)
      · -- everybody waits for a lock or is done: nobody holds one
        have hall : ∀ c ∈ s.clients, blocked c = true := by
          intro c hc
          obtain ⟨i, hi⟩ := List.getElem?_of_mem hc
          cases hb : blocked c
          · exact absurd ⟨i, c, hi, hb⟩ hex
          · rfl
        have hr0 : s.readers = 0 := by
          rw [hl.readers]
          apply List.countP_eq_zero.mpr
          intro c hc
          have := hall c hc
          simp only [blocked, Bool.or_eq_true, beq_iff_eq] at this
          simp only [isReader, Bool.or_eq_true, beq_iff_eq]
          rcases this with ((h | h) | h) | h <;> simp [h]
        have hw0 : s.writer = false := by
          have hcw : s.clients.countP isWriter = 0 := by
            apply List.countP_eq_zero.mpr
            intro c hc
            have := hall c hc
            simp only [blocked, Bool.or_eq_true, beq_iff_eq] at this
            simp only [isWriter, Bool.or_eq_true, beq_iff_eq]
            rcases this with ((h | h) | h) | h <;> simp [h]
          have := hl.writers
          rw [hcw] at this
          cases hsw : s.writer
          · rfl
          · rw [hsw] at this; simp at this
        by_cases hww : ∃ (i : Nat) (c : Client), s.clients[i]? = some c ∧ c.pc = Pc.wlock
        · obtain ⟨i, c, hc, hpc⟩ := hww
          apply step_ne_nil_of pref s i c hc
          simp [clientStep, hpc, B6.Model.Proto.guard, canLock, hw0, hr0]
        · -- no writer waits: the unfinished client can take the read lock
          have hnw : writerWaiting s = false := by
            unfold writerWaiting
            apply (List.any_eq_false).mpr
            intro c hc hp
            obtain ⟨i, hi⟩ := List.getElem?_of_mem hc
            exact hww ⟨i, c, hi, by simpa using hp⟩
          have hb0 := hall c0 hc0m
          simp only [blocked, Bool.or_eq_true, beq_iff_eq] at hb0
          apply step_ne_nil_of pref s i0 c0 hi0
          rcases hb0 with ((h | h) | h) | h
          · simp [clientStep, h, B6.Model.Proto.guard, canRLock, hw0, hnw]
          · simp [clientStep, h, B6.Model.Proto.guard, canRLock, hw0, hnw]
          · exact absurd ⟨i0, c0, hi0, h⟩ hww
          · simp [h] at hc0
    cases hst : step pref s with
    | nil => exact absurd hst hne
    | cons _ _ => rfl
  · simp

end B6.Lemmas.ProtoService
