import B6.Model.Proto.Feed
import B6.Lemmas.ProtoMeasure
/-! Invariants of the `Feed` protocol model (helper lemmas for `Props/C28.lean`). -/
namespace B6.Model.Proto.Feed
open B6.Model.Proto

theorem mem_step {c : Cfg} {s s' : St} : s' ∈ step c s ↔ s.ret = none ∧
    ( (inLoop c s ∧ s.queue.length < c.g ∧ s' = { s with queue := s.queue ++ [s.next], next := s.next + 1 })
    ∨ (inLoop c s ∧ s.cancelled = true ∧ s' = { s with stopped := true })
    ∨ (s.closed = false ∧ ¬ inLoop c s ∧ s' = { s with closed := true })
    ∨ (s.closed = true ∧ allExited s ∧ s' = { s with ret := some s.cause })
    ∨ (c.ext = true ∧ s.cancelled = false ∧ s' = { s with cancelled := true })
    ∨ (∃ i w, s.ws[i]? = some w ∧ s' ∈ workerStep c s i w)) := by
  unfold step
  cases hr : s.ret with
  | some r => simp
  | none =>
    simp only [Option.isSome_none, Bool.false_eq_true, ↓reduceIte, List.mem_append, mem_forWorkers, mem_guard, true_and]
    constructor
    · rintro (((((h | h) | h) | h) | h) | h)
      · exact Or.inl ⟨h.1.1, h.1.2, h.2⟩
      · exact Or.inr (Or.inl ⟨h.1.1, h.1.2, h.2⟩)
      · exact Or.inr (Or.inr (Or.inl ⟨h.1.1, h.1.2, h.2⟩))
      · exact Or.inr (Or.inr (Or.inr (Or.inl ⟨h.1.1, h.1.2, h.2⟩)))
      · exact Or.inr (Or.inr (Or.inr (Or.inr (Or.inl ⟨h.1.1, h.1.2, h.2⟩))))
      · exact Or.inr (Or.inr (Or.inr (Or.inr (Or.inr h))))
    · rintro (h | h | h | h | h | h)
      · exact Or.inl (Or.inl (Or.inl (Or.inl (Or.inl ⟨⟨h.1, h.2.1⟩, h.2.2⟩))))
      · exact Or.inl (Or.inl (Or.inl (Or.inl (Or.inr ⟨⟨h.1, h.2.1⟩, h.2.2⟩))))
      · exact Or.inl (Or.inl (Or.inl (Or.inr ⟨⟨h.1, h.2.1⟩, h.2.2⟩)))
      · exact Or.inl (Or.inl (Or.inr ⟨⟨h.1, h.2.1⟩, h.2.2⟩))
      · exact Or.inl (Or.inr ⟨⟨h.1, h.2.1⟩, h.2.2⟩)
      · exact Or.inr h

theorem mem_workerStep {c : Cfg} {s s' : St} {i : Nat} {w : W} (h : s' ∈ workerStep c s i w) :
    (w = W.idle ∧ c.watch = true ∧ s.cancelled = true ∧ s' = { s with ws := s.ws.set i W.exited })
    ∨ (w = W.idle ∧ ∃ k q, s.queue = k :: q ∧
        s' = { s with queue := q, ws := s.ws.set i (W.busy k), late := if s.stopped then s.late + 1 else s.late })
    ∨ (w = W.idle ∧ s.queue = [] ∧ s.closed = true ∧ s' = { s with ws := s.ws.set i W.exited })
    ∨ (∃ k, w = W.busy k ∧ c.fails k = true ∧
        s' = { s with ws := s.ws.set i W.failing, failed := true, calls := s.calls + 1 })
    ∨ (∃ k, w = W.busy k ∧ c.fails k = false ∧ s' = { s with ws := s.ws.set i W.idle, calls := s.calls + 1 })
    ∨ (w = W.failing ∧ s' = { s with ws := s.ws.set i W.exited, cause := true, cancelled := true }) := by
  cases w with
  | idle =>
    simp only [workerStep, List.mem_append, mem_guard, recv] at h
    rcases h with ⟨⟨h1, h2⟩, rfl⟩ | h
    · exact Or.inl ⟨rfl, h1, h2, rfl⟩
    · split at h
      · next k q hq => simp only [List.mem_singleton] at h; exact Or.inr (Or.inl ⟨rfl, k, q, hq, h⟩)
      · next hq => simp only [mem_guard] at h; exact Or.inr (Or.inr (Or.inl ⟨rfl, hq, h.1, h.2⟩))
  | busy k =>
    simp only [workerStep] at h
    split at h
    · next hf => simp only [List.mem_singleton] at h; exact Or.inr (Or.inr (Or.inr (Or.inl ⟨k, rfl, hf, h⟩)))
    · next hf =>
      simp only [List.mem_singleton] at h
      exact Or.inr (Or.inr (Or.inr (Or.inr (Or.inl ⟨k, rfl, by simpa using hf, h⟩))))
  | failing =>
    simp only [workerStep, List.mem_singleton] at h
    exact Or.inr (Or.inr (Or.inr (Or.inr (Or.inr ⟨rfl, h⟩))))
  | exited => simp [workerStep] at h

structure Inv (c : Cfg) (s : St) : Prop where
  len : s.ws.length = c.g
  err : s.failed = true → s.cause = true ∨ ∃ i : Nat, s.ws[i]? = some W.failing
  ret : ∀ r, s.ret = some r → r = s.cause ∧ allExited s
  /-- no worker leaves before the channel is closed or the context cancelled -/
  live : s.closed = false → s.cancelled = false → ∀ i : Nat, s.ws[i]? ≠ some W.exited
  cap : s.late + s.queue.length ≤ c.g
  late0 : s.stopped = false → s.late = 0

theorem inv_init (c : Cfg) : Inv c (init c) := by
  refine ⟨by simp [init], by simp [init], by simp [init], ?_, by simp [init], by simp [init]⟩
  intro _ _ i hi
  simp only [init, List.getElem?_replicate] at hi
  split at hi <;> simp at hi

/-- the parts of the invariant that only look at the worker list, for a step of worker `i` from `w` to `x` -/
theorem err_set {s : St} {ws' : List W} {i : Nat} {w x : W} (hw : s.ws[i]? = some w) (hws : ws' = s.ws.set i x)
    (hx : w = W.failing → False)
    (h : ∃ j : Nat, s.ws[j]? = some W.failing) : ∃ j : Nat, ws'[j]? = some W.failing := by
  obtain ⟨j, hj⟩ := h
  refine ⟨j, ?_⟩
  have : j ≠ i := by rintro rfl; rw [hw] at hj; exact hx (by cases hj; rfl)
  rw [hws, List.getElem?_set_ne (Ne.symm this)]; exact hj

theorem inv_step {c : Cfg} {s s' : St} (I : Inv c s) (h : s' ∈ step c s) : Inv c s' := by
  obtain ⟨hr, h⟩ := mem_step.mp h
  have hret : ∀ r, s.ret = some r → False := by intro r e; rw [hr] at e; cases e
  rcases h with ⟨hl, hq, rfl⟩ | ⟨hl, hc, rfl⟩ | ⟨hc, hl, rfl⟩ | ⟨hc, ha, rfl⟩ | ⟨_, _, rfl⟩ | ⟨i, w, hw, h⟩
  · -- send
    refine ⟨I.len, I.err, fun r e => (hret r e).elim, I.live, ?_, I.late0⟩
    have := I.late0 hl.2.1
    simp only [List.length_append, List.length_cons, List.length_nil]; omega
  · -- Done arm
    exact ⟨I.len, I.err, fun r e => (hret r e).elim, I.live, I.cap, by simp⟩
  · -- close
    exact ⟨I.len, I.err, fun r e => (hret r e).elim, by simp, I.cap, I.late0⟩
  · -- return
    refine ⟨I.len, I.err, ?_, I.live, I.cap, I.late0⟩
    intro r e; simp only [Option.some.injEq] at e; exact ⟨e.symm, ha⟩
  · -- the caller cancels its context
    exact ⟨I.len, I.err, fun r e => (hret r e).elim, by intro _ h2; simp at h2, I.cap, I.late0⟩
  · rcases mem_workerStep h with ⟨rfl, _, hcan, rfl⟩ | ⟨rfl, k, q, hq, rfl⟩ | ⟨rfl, hq, hc, rfl⟩ |
      ⟨k, rfl, hf, rfl⟩ | ⟨k, rfl, hf, rfl⟩ | ⟨rfl, rfl⟩
    · -- idle worker leaves through ctx.Done()
      refine ⟨by simp [I.len], ?_, fun r e => (hret r e).elim, ?_, I.cap, I.late0⟩
      · intro hf; exact (I.err hf).imp id (err_set hw rfl (by simp))
      · intro _ h2; simp [hcan] at h2
    · -- idle worker receives item k
      refine ⟨by simp [I.len], ?_, fun r e => (hret r e).elim, ?_, ?_, ?_⟩
      · intro hf; exact (I.err hf).imp id (err_set hw rfl (by simp))
      · intro h1 h2 j hj
        rcases getElem?_set_some hj with ⟨_, e⟩ | ⟨_, e⟩
        · cases e
        · exact I.live h1 h2 j e
      · have := I.cap; rw [hq] at this
        simp only [List.length_cons] at this
        show (if s.stopped = true then s.late + 1 else s.late) + q.length ≤ c.g
        split <;> omega
      · intro hs; simp only at hs; simp [hs]; exact I.late0 hs
    · -- idle worker finds the channel closed and empty
      refine ⟨by simp [I.len], ?_, fun r e => (hret r e).elim, ?_, I.cap, I.late0⟩
      · intro hf; exact (I.err hf).imp id (err_set hw rfl (by simp))
      · intro h1; simp [hc] at h1
    · -- the callback fails
      refine ⟨by simp [I.len], fun _ => Or.inr ⟨i, getElem?_set_self' hw⟩, fun r e => (hret r e).elim, ?_, I.cap, I.late0⟩
      intro h1 h2 j hj
      rcases getElem?_set_some hj with ⟨_, e⟩ | ⟨_, e⟩
      · cases e
      · exact I.live h1 h2 j e
    · -- the callback succeeds
      refine ⟨by simp [I.len], ?_, fun r e => (hret r e).elim, ?_, I.cap, I.late0⟩
      · intro hf; exact (I.err hf).imp id (err_set hw rfl (by simp))
      · intro h1 h2 j hj
        rcases getElem?_set_some hj with ⟨_, e⟩ | ⟨_, e⟩
        · cases e
        · exact I.live h1 h2 j e
    · -- the failing worker records the error, cancels and returns
      refine ⟨by simp [I.len], fun _ => Or.inl rfl, fun r e => (hret r e).elim, ?_, I.cap, I.late0⟩
      intro _ h2; simp at h2

theorem inv_reachable {c : Cfg} {s : St} (h : Reachable (step c) (init c) s) : Inv c s :=
  Reachable.invariant (Inv c) (inv_init c) (fun _ _ I hm => inv_step I hm) s h

/-! ### a measure that every step decreases -/

def wweight : W → Nat
  | .idle => 1
  | .busy _ => 2
  | .failing => 1
  | .exited => 0

/-- 3 per item not yet sent, 2 per item in the channel, 2 / 1 per worker that is busy / has not left, 1 each for the
producer's Done arm, `close`, `return`, and the cancellation of the context -/
def measure (c : Cfg) (s : St) : Nat :=
  3 * (c.n - s.next) + 2 * s.queue.length + (s.ws.map wweight).sum
    + flag s.stopped + flag s.closed + flag s.ret.isSome + flag s.cancelled

theorem measure_step {c : Cfg} {s s' : St} (h : s' ∈ step c s) : measure c s' < measure c s := by
  obtain ⟨hr, h⟩ := mem_step.mp h
  rcases h with ⟨hl, hq, rfl⟩ | ⟨hl, hc, rfl⟩ | ⟨hc, hl, rfl⟩ | ⟨hc, ha, rfl⟩ | ⟨_, hc, rfl⟩ | ⟨i, w, hw, h⟩
  · have := hl.2.2
    simp only [measure, List.length_append, List.length_cons, List.length_nil]; omega
  · simp only [measure, hl.2.1, flag]; simp
  · simp only [measure, hc, flag]; simp
  · simp only [measure, hr, flag]; simp
  · simp only [measure, hc, flag]; simp
  · have key : ∀ x : W, ((s.ws.set i x).map wweight).sum + wweight w = (s.ws.map wweight).sum + wweight x :=
      fun x => sum_map_set' wweight s.ws i w x hw
    have fc : flag true ≤ flag s.cancelled := by simp [flag]
    rcases mem_workerStep h with ⟨rfl, _, hcan, rfl⟩ | ⟨rfl, k, q, hq, rfl⟩ | ⟨rfl, hq, hc, rfl⟩ |
      ⟨k, rfl, hf, rfl⟩ | ⟨k, rfl, hf, rfl⟩ | ⟨rfl, rfl⟩
    · have := key W.exited; simp only [wweight] at this; simp only [measure]; omega
    · have := key (W.busy k); simp only [wweight] at this
      simp only [measure, hq, List.length_cons]; omega
    · have := key W.exited; simp only [wweight] at this; simp only [measure]; omega
    · have := key W.failing; simp only [wweight] at this; simp only [measure]; omega
    · have := key W.idle; simp only [wweight] at this; simp only [measure]; omega
    · have := key W.exited; simp only [wweight] at this; simp only [measure]; omega

end B6.Model.Proto.Feed
