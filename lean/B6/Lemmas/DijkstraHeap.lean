import B6.Lemmas.Dijkstra
/-!
# The queue of `ShortestPathSearch` really is a binary heap (core Lean only)

`container/heap` as modelled in `Model/Dijkstra.lean` (`Heap.up/down/push/pop/fix`, `Less` = strict `<` on the
distances of the table entries).  Invariant `HInv`: the queue holds exactly the unvisited table entries, each once,
in heap order.  `up_spec`, `down_spec` (sift lemmas with the usual "ordered except at one node" invariants),
`push_spec`, `fix_spec` (after a strict decrease: `down` is a no-op, `up` repairs), `pop_spec` (returns the root,
which is a queued minimum — `IsMin` — and leaves a heap of the rest), `relaxH_spec`/`foldl_relaxH_spec` (the inner
loop never fails), `HInv.afterPop`, and `runHU_eq_runH`: the loop without the run-time check equals the checked one.  `HInv.initList` (any origin list),
`searchToStart_spec`/`runH_to_spec` (`ExpandSearchTo` stops exactly at the pop of `dest`), `runH_finishes` (termination:
fuel ≥ number of unsettled vertices of a finite closed vertex set).
-/
set_option linter.unusedSectionVars false
set_option linter.unusedVariables false
namespace B6.Lemmas.DijkstraHeap
open B6.Model.Dijkstra B6.Spec.ShortestPath B6.Lemmas.Dijkstra

section heap
variable {P S α : Type} [DecidableEq P] [Cost α] [LawfulCost α]

/-- `p` is not behind `q` in the order `Less` uses (distances of their table entries) -/
def KLe (t : Table P S α) (p q : P) : Prop :=
  ∀ ep eq, tget t p = some ep → tget t q = some eq → ¬ eq.dist < ep.dist

/-- the same between two positions of the queue -/
def KLeIdx (t : Table P S α) (h : Array P) (a b : Nat) : Prop :=
  ∀ pa pb, h[a]? = some pa → h[b]? = some pb → KLe t pa pb

/-- every queued point has a table entry -/
def AllIn (t : Table P S α) (h : Array P) : Prop := ∀ (k : Nat) (p : P), h[k]? = some p → ∃ e, tget t p = some e

def par (k : Nat) : Nat := (k - 1) / 2

/-- heap order on the first `n` positions -/
def Ord (t : Table P S α) (h : Array P) (n : Nat) : Prop :=
  ∀ k, 0 < k → k < n → KLeIdx t h (par k) k

/-- heap order except between `j` and its parent (state of `up`) -/
def OrdUp (t : Table P S α) (h : Array P) (n j : Nat) : Prop :=
  (∀ k, 0 < k → k < n → k ≠ j → KLeIdx t h (par k) k) ∧
  (∀ k, 0 < k → k < n → par k = j → 0 < j → KLeIdx t h (par j) k)

/-- heap order except between `i` and its children (state of `down`) -/
def OrdDown (t : Table P S α) (h : Array P) (n i : Nat) : Prop :=
  (∀ k, 0 < k → k < n → par k ≠ i → KLeIdx t h (par k) k) ∧
  (∀ k, 0 < k → k < n → par k = i → 0 < i → KLeIdx t h (par i) k)

theorem KLe.trans {t : Table P S α} {a b c : P} (h1 : KLe t a b) (h2 : KLe t b c)
    (hb : ∃ e, tget t b = some e) : KLe t a c := by
  intro ea ec ha hc hlt
  obtain ⟨eb, hb⟩ := hb
  have := le_of_not_lt (h1 ea eb ha hb)
  have := le_of_not_lt (h2 eb ec hb hc)
  exact not_lt_of_le (le_trans' ‹ea.dist ≤ eb.dist› ‹eb.dist ≤ ec.dist›) hlt

theorem KLe.refl (t : Table P S α) (a : P) : KLe t a a := by
  intro ea eb ha hb hlt
  rw [ha] at hb; cases hb
  exact not_lt_of_le (le_rfl' _) hlt

/-! ### `less` and `swap` under the invariants -/

theorem less_spec {t : Table P S α} {h : Array P} {i j : Nat} {pi pj : P}
    (hi : h[i]? = some pi) (hj : h[j]? = some pj) (hall : AllIn t h) :
    ∃ ei ej, tget t pi = some ei ∧ tget t pj = some ej ∧
      Heap.less t h i j = some (decide (ei.dist < ej.dist)) := by
  obtain ⟨ei, hei⟩ := hall i pi hi
  obtain ⟨ej, hej⟩ := hall j pj hj
  exact ⟨ei, ej, hei, hej, by simp [Heap.less, hi, hj, hei, hej]⟩

/-- the transposition of two positions -/
def tr (i j k : Nat) : Nat := if k = i then j else if k = j then i else k

theorem swap_spec {h : Array P} {i j : Nat} {pi pj : P} (hi : h[i]? = some pi) (hj : h[j]? = some pj) :
    ∃ h', Heap.swap h i j = some h' ∧ h'.size = h.size ∧ ∀ k, h'[k]? = h[tr i j k]? := by
  have hi' : i < h.size := by
    rcases Nat.lt_or_ge i h.size with h1 | h1
    · exact h1
    · rw [Array.getElem?_eq_none h1] at hi; cases hi
  have hj' : j < h.size := by
    rcases Nat.lt_or_ge j h.size with h1 | h1
    · exact h1
    · rw [Array.getElem?_eq_none h1] at hj; cases hj
  refine ⟨(h.setIfInBounds i pj).setIfInBounds j pi, by simp [Heap.swap, hi, hj], by simp, ?_⟩
  intro k
  simp only [Array.getElem?_setIfInBounds, Array.size_setIfInBounds, tr]
  by_cases hkj : j = k
  · subst hkj
    by_cases hki : j = i
    · subst hki; rw [hi] at hj; cases hj; simp [hj']
      obtain ⟨_, h2⟩ := Array.getElem?_eq_some_iff.mp hi; exact h2.symm
    · simp [hj', hki, hi]
  · by_cases hki : i = k
    · subst hki; simp [hkj, hi', hj]
    · have h1 : ¬ k = i := fun x => hki x.symm
      have h2 : ¬ k = j := fun x => hkj x.symm
      simp [hkj, hki, h1, h2]


/-- `h'` holds the same queue entries as `h`, moved around by a bijection of positions -/
def Shuffle (h h' : Array P) : Prop :=
  ∃ σ τ : Nat → Nat, (∀ k, σ (τ k) = k) ∧ (∀ k, τ (σ k) = k) ∧ ∀ k : Nat, h'[k]? = h[σ k]?

theorem Shuffle.refl (h : Array P) : Shuffle h h := ⟨id, id, fun _ => rfl, fun _ => rfl, fun _ => rfl⟩

theorem Shuffle.trans {h1 h2 h3 : Array P} (a : Shuffle h1 h2) (b : Shuffle h2 h3) : Shuffle h1 h3 := by
  obtain ⟨σ1, τ1, a1, a2, a3⟩ := a
  obtain ⟨σ2, τ2, b1, b2, b3⟩ := b
  refine ⟨fun k => σ1 (σ2 k), fun k => τ2 (τ1 k), ?_, ?_, ?_⟩
  · intro k; simp [a1, b1]
  · intro k; simp [a2, b2]
  · intro k; rw [b3, a3]

theorem tr_tr (i j k : Nat) : tr i j (tr i j k) = k := by
  unfold tr; split <;> split <;> (try split) <;> simp_all

theorem tr_ne {i j k : Nat} (h1 : k ≠ i) (h2 : k ≠ j) : tr i j k = k := by simp [tr, h1, h2]
theorem tr_left (i j : Nat) : tr i j i = j := by simp [tr]
theorem tr_right (i j : Nat) : tr i j j = i := by
  unfold tr; by_cases h : j = i <;> simp [h]

theorem Shuffle.ofSwap {h h' : Array P} {i j : Nat} (hs : ∀ k : Nat, h'[k]? = h[tr i j k]?) : Shuffle h h' :=
  ⟨tr i j, tr i j, tr_tr i j, tr_tr i j, hs⟩

theorem Shuffle.allIn {t : Table P S α} {h h' : Array P} (s : Shuffle h h') (ha : AllIn t h) : AllIn t h' := by
  obtain ⟨σ, _, _, _, hs⟩ := s
  intro k p hk
  rw [hs] at hk
  exact ha _ p hk

theorem KLeIdx.ofSwap {t : Table P S α} {h h' : Array P} {i j : Nat}
    (hs : ∀ k : Nat, h'[k]? = h[tr i j k]?) {a b : Nat} (hk : KLeIdx t h (tr i j a) (tr i j b)) :
    KLeIdx t h' a b := by
  intro pa pb ha hb
  rw [hs] at ha hb
  exact hk pa pb ha hb

theorem getElem?_lt {h : Array P} {k : Nat} (hk : k < h.size) : ∃ p, h[k]? = some p :=
  ⟨h[k], by simp [hk]⟩

theorem lt_size_of_some {h : Array P} {k : Nat} {p : P} (hk : h[k]? = some p) : k < h.size := by
  rcases Nat.lt_or_ge k h.size with h1 | h1
  · exact h1
  · rw [Array.getElem?_eq_none h1] at hk; cases hk

/-- `heap.up` restores the heap order when only the pair (parent j, j) may be out of order -/
theorem up_spec {t : Table P S α} :
    ∀ (fuel : Nat) (h : Array P) (j : Nat), AllIn t h → OrdUp t h h.size j → j < h.size → j < fuel →
      ∃ h', Heap.up t fuel h j = some h' ∧ h'.size = h.size ∧ Ord t h' h'.size ∧ Shuffle h h' := by
  intro fuel
  induction fuel with
  | zero => intro h j _ _ _ hf; omega
  | succ fuel ih =>
    intro h j hall hord hj hf
    unfold Heap.up
    by_cases hj0 : j = 0
    · subst hj0
      refine ⟨h, by simp, rfl, ?_, Shuffle.refl h⟩
      intro k hk0 hkn
      exact hord.1 k hk0 hkn (by omega)
    · simp only [hj0, if_false]
      have hi : (j - 1) / 2 < h.size := by omega
      obtain ⟨pj, hpj⟩ := getElem?_lt hj
      obtain ⟨pi, hpi⟩ := getElem?_lt hi
      obtain ⟨ej, ei, hej, hei, hless⟩ := less_spec hpj hpi hall
      rw [hless]
      by_cases hlt : ej.dist < ei.dist
      · -- swap and continue from the parent
        obtain ⟨h', hsw, hsz, hs⟩ := swap_spec hpi hpj
        have hall' : AllIn t h' := (Shuffle.ofSwap hs).allIn hall
        have kji : KLe t pj pi := by
          intro ea eb ha hb hlt'
          rw [hej] at ha; rw [hei] at hb; cases ha; cases hb
          exact not_lt_of_le (le_of_lt hlt) hlt'
        have hord' : OrdUp t h' h'.size ((j - 1) / 2) := by
          rw [hsz]
          constructor
          · intro k hk0 hkn hki
            apply KLeIdx.ofSwap hs
            by_cases hkj : k = j
            · subst hkj
              have e1 : tr ((k - 1) / 2) k (par k) = k := by simp [tr, par]
              have e2 : tr ((k - 1) / 2) k k = (k - 1) / 2 := by
                simp only [tr]; split
                · omega
                · simp
              rw [e1, e2]
              intro pa pb ha hb
              rw [hpj] at ha; rw [hpi] at hb; cases ha; cases hb
              exact kji
            · have e2 : tr ((j - 1) / 2) j k = k := by simp [tr, hkj, hki]
              rw [e2]
              by_cases hpk : par k = j
              · have e1 : tr ((j - 1) / 2) j (par k) = (j - 1) / 2 := by
                  simp only [tr, hpk]; split
                  · omega
                  · simp
                rw [e1]
                exact hord.2 k hk0 hkn hpk (by omega)
              · by_cases hpk2 : par k = (j - 1) / 2
                · have e1 : tr ((j - 1) / 2) j (par k) = j := by simp [tr, hpk2]
                  rw [e1]
                  intro pa pb ha hb
                  rw [hpj] at ha; cases ha
                  have := hord.1 k hk0 hkn hkj pi pb (by rw [hpk2]; exact hpi) hb
                  exact kji.trans this ⟨ei, hei⟩
                · have e1 : tr ((j - 1) / 2) j (par k) = par k := by simp [tr, hpk, hpk2]
                  rw [e1]
                  exact hord.1 k hk0 hkn hkj
          · intro k hk0 hkn hpk hi0
            apply KLeIdx.ofSwap hs
            have e1 : tr ((j - 1) / 2) j (par ((j - 1) / 2)) = par ((j - 1) / 2) :=
              tr_ne (by unfold par; omega) (by unfold par; omega)
            rw [e1]
            have hgi : KLeIdx t h (par ((j - 1) / 2)) ((j - 1) / 2) :=
              hord.1 _ hi0 hi (by omega)
            by_cases hkj : k = j
            · subst hkj
              have e2 : tr ((k - 1) / 2) k k = (k - 1) / 2 := by
                simp only [tr]; split
                · omega
                · simp
              rw [e2]; exact hgi
            · have hki : k ≠ (j - 1) / 2 := by unfold par at hpk; omega
              have e2 : tr ((j - 1) / 2) j k = k := by simp [tr, hkj, hki]
              rw [e2]
              intro pa pb ha hb
              have h1 := hgi pa pi ha hpi
              have h2 := hord.1 k hk0 hkn hkj pi pb (by rw [hpk]; exact hpi) hb
              exact h1.trans h2 ⟨ei, hei⟩
        obtain ⟨h'', hup, hsz', hord'', hsh⟩ := ih h' ((j - 1) / 2) hall' hord' (by omega) (by omega)
        refine ⟨h'', ?_, by omega, hord'', (Shuffle.ofSwap hs).trans hsh⟩
        simp [hlt, hsw, hup]
      · refine ⟨h, by simp [hlt], rfl, ?_, Shuffle.refl h⟩
        intro k hk0 hkn
        by_cases hkj : k = j
        · subst hkj
          intro pa pb ha hb
          unfold par at ha
          rw [hpi] at ha; rw [hpj] at hb; cases ha; cases hb
          intro ea eb ha hb
          rw [hei] at ha; rw [hej] at hb; cases ha; cases hb
          exact hlt
        · exact hord.1 k hk0 hkn hkj


theorem KLe.ofNotLt {t : Table P S α} {a b : P} {ea eb : Entry P S α} (ha : tget t a = some ea)
    (hb : tget t b = some eb) (h : ¬ eb.dist < ea.dist) : KLe t a b := by
  intro ea' eb' ha' hb'
  rw [ha] at ha'; rw [hb] at hb'; cases ha'; cases hb'; exact h

theorem KLe.ofLt {t : Table P S α} {a b : P} {ea eb : Entry P S α} (ha : tget t a = some ea)
    (hb : tget t b = some eb) (h : ea.dist < eb.dist) : KLe t a b :=
  KLe.ofNotLt ha hb (not_lt_of_le (le_of_lt h))

/-- the child chosen by `down` exists and is not behind any child of `i` -/
theorem pickChild_spec {t : Table P S α} {h : Array P} {i n : Nat} (hall : AllIn t h) (hn : n ≤ h.size)
    (hj1 : ¬ 2 * i + 1 ≥ n) :
    ∃ (j : Nat) (pj : P) (ej : Entry P S α),
      Heap.pickChild t h (2 * i + 1) n = some j ∧ (j = 2 * i + 1 ∨ j = 2 * i + 1 + 1) ∧
      h[j]? = some pj ∧ tget t pj = some ej ∧ j < n ∧
      ∀ k, k < n → par k = i → 0 < k → KLeIdx t h j k := by
  have h1s : 2 * i + 1 < h.size := by omega
  obtain ⟨p1, hp1⟩ := getElem?_lt h1s
  obtain ⟨e1, he1⟩ := hall _ _ hp1
  unfold Heap.pickChild
  by_cases h2 : 2 * i + 1 + 1 < n
  · have h2s : 2 * i + 1 + 1 < h.size := by omega
    obtain ⟨p2, hp2⟩ := getElem?_lt h2s
    obtain ⟨e2, e1', he2, he1', hless⟩ := less_spec hp2 hp1 hall
    rw [he1] at he1'; cases he1'
    by_cases hlt : e2.dist < e1.dist
    · refine ⟨2 * i + 1 + 1, p2, e2, by simp [h2, hless, hlt], Or.inr rfl, hp2, he2, h2, ?_⟩
      intro k hkn hpk hk0 pa pb ha hb
      rw [hp2] at ha; cases ha
      have : k = 2 * i + 1 ∨ k = 2 * i + 1 + 1 := by unfold par at hpk; omega
      rcases this with hk | hk
      · subst hk; rw [hp1] at hb; cases hb; exact KLe.ofLt he2 he1 hlt
      · subst hk; rw [hp2] at hb; cases hb; exact KLe.refl t _
    · refine ⟨2 * i + 1, p1, e1, by simp [h2, hless, hlt], Or.inl rfl, hp1, he1, by omega, ?_⟩
      intro k hkn hpk hk0 pa pb ha hb
      rw [hp1] at ha; cases ha
      have : k = 2 * i + 1 ∨ k = 2 * i + 1 + 1 := by unfold par at hpk; omega
      rcases this with hk | hk
      · subst hk; rw [hp1] at hb; cases hb; exact KLe.refl t _
      · subst hk; rw [hp2] at hb; cases hb; exact KLe.ofNotLt he1 he2 hlt
  · refine ⟨2 * i + 1, p1, e1, by simp [h2], Or.inl rfl, hp1, he1, by omega, ?_⟩
    intro k hkn hpk hk0 pa pb ha hb
    rw [hp1] at ha; cases ha
    have : k = 2 * i + 1 := by unfold par at hpk; omega
    subst this; rw [hp1] at hb; cases hb; exact KLe.refl t _

/-- `heap.down` restores the heap order on the first `n` positions when only `i` may be above its children;
positions from `n` on are not touched -/
theorem down_spec {t : Table P S α} :
    ∀ (fuel : Nat) (h : Array P) (i n : Nat), AllIn t h → n ≤ h.size → OrdDown t h n i → n - i < fuel →
      ∃ r, Heap.down t fuel h i n = some r ∧ r.1.size = h.size ∧ Ord t r.1 n ∧ Shuffle h r.1 ∧
        ∀ k : Nat, n ≤ k → r.1[k]? = h[k]? := by
  intro fuel
  induction fuel with
  | zero => intro h i n _ _ _ hf; omega
  | succ fuel ih =>
    intro h i n hall hn hord hf
    unfold Heap.down
    by_cases hj1 : 2 * i + 1 ≥ n
    · refine ⟨(h, i), by simp [hj1], rfl, ?_, Shuffle.refl h, fun _ _ => rfl⟩
      intro k hk0 hkn
      exact hord.1 k hk0 hkn (by unfold par; omega)
    · simp only [hj1, if_false]
      have hi : i < h.size := by omega
      have h1s : 2 * i + 1 < h.size := by omega
      obtain ⟨pi, hpi⟩ := getElem?_lt hi
      obtain ⟨p1, hp1⟩ := getElem?_lt h1s
      obtain ⟨ei, hei⟩ := hall _ _ hpi
      obtain ⟨e1, he1⟩ := hall _ _ hp1
      -- the smaller child `j` with entry `pj`, not behind any child of `i`
      have pick := pickChild_spec hall hn hj1
      obtain ⟨j, pj, ej, hpick, hjcase, hpj, hej, hjn, hjmin⟩ := pick
      rw [hpick]
      simp only []
      have hji : par j = i := by unfold par; omega
      have hj0 : 0 < j := by omega
      have hjgt : i < j := by omega
      obtain ⟨ej', ei', hej', hei', hless⟩ := less_spec hpj hpi hall
      rw [hej] at hej'; rw [hei] at hei'; cases hej'; cases hei'
      rw [hless]
      by_cases hlt : ej.dist < ei.dist
      · obtain ⟨h', hsw, hsz, hs⟩ := swap_spec hpi hpj
        have hall' : AllIn t h' := (Shuffle.ofSwap hs).allIn hall
        have kji : KLe t pj pi := KLe.ofLt hej hei hlt
        have hord' : OrdDown t h' n j := by
          constructor
          · intro k hk0 hkn hpk
            apply KLeIdx.ofSwap hs
            by_cases hkj : k = j
            · subst hkj
              rw [hji, tr_left, tr_right]
              intro pa pb ha hb
              rw [hpj] at ha; rw [hpi] at hb; cases ha; cases hb; exact kji
            · by_cases hki : k = i
              · subst hki
                rw [tr_left, tr_ne (by unfold par; omega) (by unfold par; omega)]
                exact hord.2 j hj0 hjn hji hk0
              · rw [tr_ne hki hkj]
                by_cases hpki : par k = i
                · rw [hpki, tr_left]
                  exact hjmin k hkn hpki hk0
                · rw [tr_ne hpki hpk]
                  exact hord.1 k hk0 hkn hpki
          · intro k hk0 hkn hpk _
            apply KLeIdx.ofSwap hs
            rw [hji, tr_left, tr_ne (by unfold par at hpk; omega) (by unfold par at hpk; omega)]
            have := hord.1 k hk0 hkn (by omega)
            rw [hpk] at this; exact this
        obtain ⟨r, hdown, hsz', hord'', hsh, hfix⟩ := ih h' j n hall' (by omega) hord' (by omega)
        refine ⟨r, ?_, by omega, hord'', (Shuffle.ofSwap hs).trans hsh, ?_⟩
        · simp [hlt, hsw, hdown]
        · intro k hk
          rw [hfix k hk, hs k, tr_ne (by omega) (by omega)]
      · refine ⟨(h, i), by simp [hlt], rfl, ?_, Shuffle.refl h, fun _ _ => rfl⟩
        intro k hk0 hkn
        by_cases hpk : par k = i
        · intro pa pb ha hb
          rw [hpk, hpi] at ha; cases ha
          have h1 := hjmin k hkn hpk hk0 pj pb hpj hb
          exact (KLe.ofNotLt hei hej hlt).trans h1 ⟨ej, hej⟩
        · exact hord.1 k hk0 hkn hpk


/-- `down` does nothing when `i` is not behind any of its children -/
theorem down_noop {t : Table P S α} {h : Array P} {i n : Nat} (fuel : Nat) (hall : AllIn t h) (hn : n ≤ h.size)
    (hi : i < h.size) (hch : ∀ k, k < n → par k = i → 0 < k → KLeIdx t h i k) :
    Heap.down t (fuel + 1) h i n = some (h, i) := by
  unfold Heap.down
  by_cases hj1 : 2 * i + 1 ≥ n
  · simp [hj1]
  · simp only [hj1, if_false]
    obtain ⟨j, pj, ej, hpick, hjcase, hpj, hej, hjn, _⟩ := pickChild_spec hall hn hj1
    obtain ⟨pi, hpi⟩ := getElem?_lt hi
    obtain ⟨ej', ei, hej', hei, hless⟩ := less_spec hpj hpi hall
    rw [hej] at hej'; cases hej'
    have hk : KLe t pi pj := hch j hjn (by unfold par; omega) (by omega) pi pj hpi hpj
    have : ¬ ej.dist < ei.dist := hk ei ej hei hej
    rw [hpick]; simp only []
    rw [hless]; simp [this]

/-- in a heap the root is not behind anything -/
theorem root_min {t : Table P S α} {h : Array P} {n : Nat} (hall : AllIn t h) (hn : n ≤ h.size)
    (hord : Ord t h n) : ∀ k, k < n → KLeIdx t h 0 k := by
  intro k
  induction k using Nat.strongRecOn with
  | _ k ih =>
    intro hk
    by_cases hk0 : k = 0
    · subst hk0
      intro pa pb ha hb
      rw [ha] at hb; cases hb; exact KLe.refl t _
    · have hp : par k < k := by unfold par; omega
      have h1 := ih (par k) hp (by omega)
      have h2 := hord k (by omega) hk
      intro pa pb ha hb
      obtain ⟨pm, hpm⟩ := getElem?_lt (show par k < h.size by omega)
      exact (h1 pa pm ha hpm).trans (h2 pm pb hpm hb) (hall _ _ hpm)

theorem indexOf_spec {h : Array P} {p : P} {i : Nat} (hi : h[i]? = some p) :
    ∀ (fuel k : Nat), k ≤ i → i < k + fuel → ∃ k', Heap.indexOf h p fuel k = some k' ∧ h[k']? = some p := by
  intro fuel
  induction fuel with
  | zero => intro k h1 h2; omega
  | succ fuel ih =>
    intro k h1 h2
    unfold Heap.indexOf
    by_cases hk : h[k]? = some p
    · exact ⟨k, by simp [hk], hk⟩
    · have hne : k ≠ i := fun e => hk (e ▸ hi)
      have hlt := lt_size_of_some hi
      have : k + 1 < h.size := by omega
      simp only [hk, if_false, this, if_true]
      exact ih (k + 1) (by omega) (by omega)

/-- the queue holds every point at most once -/
def Inj (h : Array P) : Prop := ∀ (a b : Nat) (p : P), h[a]? = some p → h[b]? = some p → a = b

def Mem (h : Array P) (p : P) : Prop := ∃ k : Nat, h[k]? = some p

theorem Shuffle.inj {h h' : Array P} (s : Shuffle h h') (hi : Inj h) : Inj h' := by
  obtain ⟨σ, τ, h1, h2, hs⟩ := s
  intro a b p ha hb
  rw [hs] at ha hb
  have := hi _ _ p ha hb
  have := congrArg τ this
  simpa [h2] using this

theorem Shuffle.mem {h h' : Array P} (s : Shuffle h h') (p : P) : Mem h' p ↔ Mem h p := by
  obtain ⟨σ, τ, h1, h2, hs⟩ := s
  constructor
  · intro ⟨k, hk⟩; exact ⟨σ k, by rw [← hs]; exact hk⟩
  · intro ⟨k, hk⟩; exact ⟨τ k, by rw [hs, h1]; exact hk⟩

theorem KLe.congr {t t' : Table P S α} {a b : P} (ha : tget t' a = tget t a) (hb : tget t' b = tget t b)
    (h : KLe t a b) : KLe t' a b := by
  intro ea eb h1 h2
  rw [ha] at h1; rw [hb] at h2
  exact h ea eb h1 h2

/-- the queue is a binary heap (under `Less`) of exactly the unvisited entries -/
structure HInv (s : HState P S α) : Prop where
  unvis : ∀ (k : Nat) (p : P), s.heap[k]? = some p → ∃ e, tget s.t p = some e ∧ e.visited = false
  cover : ∀ p e, tget s.t p = some e → e.visited = false → Mem s.heap p
  inj : Inj s.heap
  ord : Ord s.t s.heap s.heap.size

theorem HInv.allIn {s : HState P S α} (h : HInv s) : AllIn s.t s.heap := by
  intro k p hk
  obtain ⟨e, he, _⟩ := h.unvis k p hk
  exact ⟨e, he⟩

/-- `heap.Pop` on a well-formed queue: returns the root, which is a queued minimum, and leaves a heap of the rest -/
theorem pop_spec {s : HState P S α} (hI : HInv s) (hne : s.heap.size ≠ 0) :
    ∃ p h1, Heap.pop s.t s.heap = some (p, h1) ∧ IsMin s.t p ∧ Inj h1 ∧ Ord s.t h1 h1.size ∧
      (∀ q, Mem h1 q ↔ (q ≠ p ∧ Mem s.heap q)) := by
  obtain ⟨t, h⟩ := s
  simp only at hI hne ⊢
  have hall := hI.allIn
  simp only at hall
  have hn : h.size - 1 < h.size := by omega
  obtain ⟨p, hp⟩ := getElem?_lt (show 0 < h.size by omega)
  obtain ⟨pl, hpl⟩ := getElem?_lt hn
  obtain ⟨h1, hsw, hsz, hs⟩ := swap_spec hp hpl
  have hall1 : AllIn t h1 := (Shuffle.ofSwap hs).allIn hall
  have hordD : OrdDown t h1 (h.size - 1) 0 := by
    constructor
    · intro k hk0 hkn hpk
      apply KLeIdx.ofSwap hs
      rw [tr_ne (by omega) (by unfold par at hpk ⊢; omega), tr_ne (by omega) (by omega)]
      exact hI.ord k hk0 (show k < h.size by omega)
    · intro k _ _ _ h0; omega
  obtain ⟨r, hdown, hsz2, hord2, hsh2, hfix⟩ :=
    down_spec (h.size + 1) h1 0 (h.size - 1) hall1 (by omega) hordD (by omega)
  have hlast : r.1[h.size - 1]? = some p := by
    rw [hfix _ (Nat.le_refl _), hs, tr_right]; exact hp
  have hshuf : Shuffle h r.1 := (Shuffle.ofSwap hs).trans hsh2
  have hinj2 : Inj r.1 := hshuf.inj hI.inj
  refine ⟨p, r.1.pop, ?_, ?_, ?_, ?_, ?_⟩
  · unfold Heap.pop
    simp [hne, hsw, hdown, hlast]
  · obtain ⟨ep, hep, hepv⟩ := hI.unvis 0 p hp
    refine ⟨ep, hep, hepv, ?_⟩
    intro q eq hq hqv
    obtain ⟨k, hk⟩ := hI.cover q eq hq hqv
    exact root_min hall (Nat.le_refl _) hI.ord k (lt_size_of_some hk) p q hp hk ep eq hep hq
  · intro a b q ha hb
    rw [Array.getElem?_pop] at ha hb
    split at ha <;> split at hb <;> simp_all
    exact hinj2 a b q ha hb
  · intro k hk0 hkn
    rw [Array.size_pop, hsz2, hsz] at hkn
    intro pa pb ha hb
    rw [Array.getElem?_pop] at ha hb
    have h1' : par k < r.1.size - 1 := by unfold par; omega
    have h2' : k < r.1.size - 1 := by omega
    simp only [h1', h2', if_true] at ha hb
    exact hord2 k hk0 hkn pa pb ha hb
  · intro q
    constructor
    · intro ⟨k, hk⟩
      rw [Array.getElem?_pop] at hk
      split at hk
      · rename_i hlt
        refine ⟨?_, (hshuf.mem q).mp ⟨k, hk⟩⟩
        intro hqp; subst hqp
        have := hinj2 _ _ q hk hlast
        omega
      · cases hk
    · intro ⟨hqp, hm⟩
      obtain ⟨k, hk⟩ := (hshuf.mem q).mpr hm
      have hklt := lt_size_of_some hk
      have : k ≠ h.size - 1 := by
        intro e; subst e; rw [hlast] at hk; cases hk; exact hqp rfl
      exact ⟨k, by rw [Array.getElem?_pop]; simp [show k < r.1.size - 1 by omega, hk]⟩


theorem not_mem_of_absent {s : HState P S α} (hI : HInv s) {v : P} (hv : tget s.t v = none) :
    ∀ k : Nat, s.heap[k]? ≠ some v := by
  intro k hk
  obtain ⟨e, he, _⟩ := hI.unvis k v hk
  rw [hv] at he; cases he

/-- `heap.Push` of a point that just got its (unvisited) entry keeps the queue well formed -/
theorem push_spec {t0 : Table P S α} {h : Array P} {v : P} {ne : Entry P S α}
    (hI : HInv { t := t0, heap := h }) (hv : tget t0 v = none) (hnv : ne.visited = false) :
    ∃ h', Heap.push (tput t0 v ne) h v = some h' ∧ HInv { t := tput t0 v ne, heap := h' } := by
  have hnot := not_mem_of_absent hI hv
  simp only at hnot
  have hold : ∀ (k : Nat) (q : P), h[k]? = some q → tget (tput t0 v ne) q = tget t0 q := by
    intro k q hk
    exact get_put_ne _ _ (fun e => hnot k (e ▸ hk))
  have hall : AllIn (tput t0 v ne) (h.push v) := by
    intro k q hk
    rw [Array.getElem?_push] at hk
    split at hk
    · cases hk; exact ⟨ne, get_put_self _ _ _⟩
    · obtain ⟨e, he, _⟩ := hI.unvis k q hk
      exact ⟨e, by rw [hold k q hk]; exact he⟩
  have hordU : OrdUp (tput t0 v ne) (h.push v) (h.push v).size h.size := by
    rw [Array.size_push]
    constructor
    · intro k hk0 hkn hkj
      have hk : k < h.size := by omega
      have hpk : par k < h.size := by unfold par; omega
      intro pa pb ha hb
      rw [Array.getElem?_push] at ha hb
      simp only [show par k ≠ h.size by omega, show k ≠ h.size by omega, if_false] at ha hb
      exact (hI.ord k hk0 hk pa pb ha hb).congr (hold _ _ ha) (hold _ _ hb)
    · intro k hk0 hkn hpk _
      unfold par at hpk; omega
  obtain ⟨h', hup, hsz, hord, hsh⟩ :=
    up_spec ((h.push v).size + 1) (h.push v) h.size hall hordU (by simp) (by simp; omega)
  refine ⟨h', ?_, ?_, ?_, ?_, ?_⟩
  · unfold Heap.push; simpa using hup
  · intro k q hk
    obtain ⟨k', hk'⟩ := (hsh.mem q).mp ⟨k, hk⟩
    rw [Array.getElem?_push] at hk'
    split at hk'
    · cases hk'; exact ⟨ne, get_put_self _ _ _, hnv⟩
    · obtain ⟨e, he, hev⟩ := hI.unvis k' q hk'
      exact ⟨e, by rw [hold k' q hk']; exact he, hev⟩
  · intro q e hq hqv
    apply (hsh.mem q).mpr
    rw [get_put] at hq
    by_cases hqv' : q = v
    · subst hqv'; exact ⟨h.size, by simp⟩
    · simp [hqv'] at hq
      obtain ⟨k, hk⟩ := hI.cover q e hq hqv
      exact ⟨k, by rw [Array.getElem?_push]; simp [show k ≠ h.size from Nat.ne_of_lt (lt_size_of_some hk), hk]⟩
  · apply hsh.inj
    intro a b q ha hb
    rw [Array.getElem?_push] at ha hb
    split at ha <;> split at hb
    · omega
    · cases ha; exact absurd hb (hnot b)
    · cases hb; exact absurd ha (hnot a)
    · exact hI.inj a b q ha hb
  · exact hord

/-- `heap.Fix` after a strict decrease of the entry of a queued point keeps the queue well formed -/
theorem fix_spec {t0 : Table P S α} {h : Array P} {v : P} {n ne : Entry P S α}
    (hI : HInv { t := t0, heap := h }) (hv : tget t0 v = some n) (hvu : n.visited = false)
    (hnv : ne.visited = false) (hd : ne.dist < n.dist) :
    ∃ h', Heap.fix (tput t0 v ne) h v = some h' ∧ HInv { t := tput t0 v ne, heap := h' } := by
  obtain ⟨i, hi⟩ := hI.cover v n hv hvu
  simp only at hi
  have hisz := lt_size_of_some hi
  have hother : ∀ (k : Nat) (q : P), h[k]? = some q → k ≠ i → tget (tput t0 v ne) q = tget t0 q := by
    intro k q hk hki
    exact get_put_ne _ _ (fun e => hki (hI.inj k i v (e ▸ hk) hi))
  have hall : AllIn (tput t0 v ne) h := by
    intro k q hk
    by_cases hki : k = i
    · subst hki; rw [hi] at hk; cases hk; exact ⟨ne, get_put_self _ _ _⟩
    · obtain ⟨e, he, _⟩ := hI.unvis k q hk
      exact ⟨e, by rw [hother k q hk hki]; exact he⟩
  -- the decreased point is not behind anything it was not behind before
  have hdec : ∀ (k : Nat), k ≠ i → KLeIdx t0 h i k → KLeIdx (tput t0 v ne) h i k := by
    intro k hki hk pa pb ha hb
    rw [hi] at ha; cases ha
    intro ea eb h1 h2
    rw [get_put_self] at h1; cases h1
    rw [hother k pb hb hki] at h2
    have := hk v pb hi hb n eb hv h2
    intro hlt
    exact this (lt_of_lt_of_le hlt (le_of_lt hd))
  have hchild : ∀ k, k < h.size → par k = i → 0 < k → KLeIdx (tput t0 v ne) h i k := by
    intro k hk hpk hk0
    apply hdec k (by unfold par at hpk; omega)
    have := hI.ord k hk0 hk
    rw [hpk] at this; exact this
  obtain ⟨k', hidx, hk'⟩ := indexOf_spec hi h.size 0 (Nat.zero_le _) (by omega)
  have : k' = i := hI.inj k' i v hk' hi
  subst this
  have hdown := down_noop (t := tput t0 v ne) (n := h.size) h.size hall (Nat.le_refl _) hisz hchild
  have hordU : OrdUp (tput t0 v ne) h h.size k' := by
    constructor
    · intro k hk0 hkn hkj
      by_cases hpk : par k = k'
      · rw [hpk]; exact hchild k hkn hpk hk0
      · intro pa pb ha hb
        exact (hI.ord k hk0 hkn pa pb ha hb).congr (hother _ _ ha hpk) (hother _ _ hb hkj)
    · intro k hk0 hkn hpk hj0
      have h1 := hI.ord k' hj0 hisz
      have h2 := hI.ord k hk0 hkn
      rw [hpk] at h2
      intro pa pb ha hb
      have hmid : KLe t0 pa pb := (h1 pa v ha hi).trans (h2 v pb hi hb) ⟨n, hv⟩
      exact hmid.congr (hother _ _ ha (by unfold par; omega)) (hother _ _ hb (by unfold par at hpk; omega))
  obtain ⟨h', hup, hsz, hord, hsh⟩ := up_spec (h.size + 1) h k' hall hordU hisz (by omega)
  refine ⟨h', ?_, ?_, ?_, ?_, ?_⟩
  · unfold Heap.fix
    simp [hidx, hdown, hup]
  · intro k q hk
    obtain ⟨k2, hk2⟩ := (hsh.mem q).mp ⟨k, hk⟩
    by_cases hki : k2 = k'
    · subst hki; rw [hi] at hk2; cases hk2; exact ⟨ne, get_put_self _ _ _, hnv⟩
    · obtain ⟨e, he, hev⟩ := hI.unvis k2 q hk2
      exact ⟨e, by rw [hother k2 q hk2 hki]; exact he, hev⟩
  · intro q e hq hqv
    apply (hsh.mem q).mpr
    rw [get_put] at hq
    by_cases hqv' : q = v
    · subst hqv'; exact ⟨k', hi⟩
    · simp [hqv'] at hq
      exact hI.cover q e hq hqv
  · exact hsh.inj hI.inj
  · exact hord


/-- what `relaxK` does to the table, with what it asks of the queue -/
theorem relaxK_spec (max d : α) (t : Table P S α) (e : Edge P S α) :
    relaxK max d t e = (t, Touch.nothing) ∨
    (tget t e.last = none ∧ ∃ ne : Entry P S α, ne.visited = false ∧
      relaxK max d t e = (tput t e.last ne, Touch.pushed)) ∨
    (∃ n ne : Entry P S α, tget t e.last = some n ∧ n.visited = false ∧ ne.visited = false ∧
      ne.dist < n.dist ∧ relaxK max d t e = (tput t e.last ne, Touch.decreased)) := by
  unfold relaxK addOrUpdateK
  cases hg : tget t e.last with
  | none =>
    by_cases hu : e.usable = true
    · by_cases hm : d + e.weight < max
      · right; left
        exact ⟨rfl, { visited := false, dist := d + e.weight, back := some e }, rfl, by simp [hu, hm]⟩
      · left; simp [hu, hm]
    · left; simp [hu]
  | some n =>
    by_cases hv : n.visited = true
    · left; simp [hv]
    · have hv' : n.visited = false := by simpa using hv
      by_cases hu : e.usable = true
      · by_cases hm : d + e.weight < max
        · by_cases hl : d + e.weight < n.dist
          · right; right
            exact ⟨n, { n with dist := d + e.weight, back := some e }, rfl, hv', hv', hl,
              by simp [hv', hu, hm, hl]⟩
          · left; simp [hv', hu, hm, hl]
        · left; simp [hv', hu, hm]
      · left; simp [hv', hu]

/-- one segment of the inner loop never fails and keeps the queue well formed -/
theorem relaxH_spec (max d : α) {s : HState P S α} (hI : HInv s) (e : Edge P S α) :
    ∃ s', relaxH max d (some s) e = some s' ∧ HInv s' := by
  obtain ⟨t, h⟩ := s
  unfold relaxH
  rcases relaxK_spec max d t e with hk | ⟨hnone, ne, hnv, hk⟩ | ⟨n, ne, hsome, hvu, hnv, hd, hk⟩
  · simp only [hk]; exact ⟨_, rfl, hI⟩
  · simp only [hk]
    obtain ⟨h', hp, hI'⟩ := push_spec hI hnone hnv
    exact ⟨_, by simp [hp], hI'⟩
  · simp only [hk]
    obtain ⟨h', hp, hI'⟩ := fix_spec hI hsome hvu hnv hd
    exact ⟨_, by simp [hp], hI'⟩

theorem foldl_relaxH_spec (max d : α) (es : List (Edge P S α)) :
    ∀ {s : HState P S α}, HInv s → ∃ s', es.foldl (relaxH max d) (some s) = some s' ∧ HInv s' := by
  induction es with
  | nil => intro s hI; exact ⟨s, rfl, hI⟩
  | cons e rest ih =>
    intro s hI
    obtain ⟨s1, h1, hI1⟩ := relaxH_spec max d hI e
    obtain ⟨s2, h2, hI2⟩ := ih hI1
    exact ⟨s2, by simp only [List.foldl, h1, h2], hI2⟩

/-- after `heap.Pop` and `visited = true` the queue is again a heap of exactly the unvisited entries -/
theorem HInv.afterPop {s : HState P S α} (hI : HInv s) {p : P} {h1 : Array P} {r : Entry P S α}
    (hp : tget s.t p = some r) (hinj : Inj h1) (hord : Ord s.t h1 h1.size)
    (hmem : ∀ q, Mem h1 q ↔ (q ≠ p ∧ Mem s.heap q)) :
    HInv { t := tput s.t p { r with visited := true }, heap := h1 } := by
  have hne : ∀ (k : Nat) (q : P), h1[k]? = some q → q ≠ p := fun k q hk => ((hmem q).mp ⟨k, hk⟩).1
  refine ⟨?_, ?_, hinj, ?_⟩
  · intro k q hk
    obtain ⟨_, k', hk'⟩ := (hmem q).mp ⟨k, hk⟩
    obtain ⟨e, he, hev⟩ := hI.unvis k' q hk'
    exact ⟨e, by simp only; rw [get_put_ne _ _ (hne k q hk)]; exact he, hev⟩
  · intro q e hq hqv
    simp only at hq
    rw [get_put] at hq
    by_cases hqp : q = p
    · simp [hqp] at hq; subst hq; simp at hqv
    · simp [hqp] at hq
      exact (hmem q).mpr ⟨hqp, hI.cover q e hq hqv⟩
  · intro k hk0 hkn pa pb ha hb
    exact (hord k hk0 hkn pa pb ha hb).congr (get_put_ne _ _ (hne _ _ ha)) (get_put_ne _ _ (hne _ _ hb))

/-- **the run-time check of `runH` never fails on a well-formed queue**: the loop as the code has it (`runHU`)
and the checked loop agree -/
theorem runHU_eq_runH (g : Graph P S α) (max : α) (to : Option P) :
    ∀ (fuel : Nat) (s : HState P S α), HInv s → runHU g max to fuel s = runH g max to fuel s := by
  intro fuel
  induction fuel with
  | zero => intro s _; rfl
  | succ fuel ih =>
    intro s hI
    unfold runHU runH
    by_cases hz : s.heap.size = 0
    · simp [hz]
    · simp only [hz, if_false]
      obtain ⟨p, h1, hpop, hmin, hinj, hord, hmem⟩ := pop_spec hI hz
      rw [hpop]
      simp only []
      have hb : isMinB s.t p = true := by
        obtain ⟨ep, hep, hepv, hm⟩ := hmin
        unfold isMinB
        simp only [hep, hepv, Bool.not_false, Bool.true_and, List.all_eq_true]
        intro ⟨q, x⟩ hqx
        obtain ⟨eq, heq⟩ := get_of_mem hqx
        simp only [heq]
        by_cases hv : eq.visited = true
        · simp [hv]
        · have hv' : eq.visited = false := by simpa using hv
          simp [hv', hm q eq heq hv']
      simp only [hb, Bool.not_true, Bool.false_eq_true, if_false]
      obtain ⟨ep, hep, _, _⟩ := hmin
      have hmark : markVisited s.t p = some (tput s.t p { ep with visited := true }, ep) := by
        simp [markVisited, hep]
      rw [hmark]
      simp only []
      by_cases hstop : stopNow to p (tput s.t p { ep with visited := true }) ep = true
      · simp [hstop]
      · simp only [hstop]
        have hI1 := hI.afterPop hep hinj hord hmem
        obtain ⟨s', hf, hI'⟩ := foldl_relaxH_spec max ep.dist (g.adj p) hI1
        rw [hf]
        exact ih s' hI'


/-- a finished `ExpandSearch` run (`to = none`) ends with an empty, well-formed queue: nothing is left unvisited -/
theorem runH_done_allVisited (g : Graph P S α) (max : α) :
    ∀ (fuel : Nat) (s s' : HState P S α), HInv s → runH g max none fuel s = .done s' →
      ∀ p e, tget s'.t p = some e → e.visited = true := by
  intro fuel
  induction fuel with
  | zero =>
    intro s s' hI h
    unfold runH at h
    split at h
    · rename_i hz
      cases h
      intro p e hp
      by_cases hv : e.visited = true
      · exact hv
      · obtain ⟨k, hk⟩ := hI.cover p e hp (by simpa using hv)
        have := lt_size_of_some hk
        omega
    · cases h
  | succ fuel ih =>
    intro s s' hI h
    unfold runH at h
    by_cases hz : s.heap.size = 0
    · simp [hz] at h
      cases h
      intro p e hp
      by_cases hv : e.visited = true
      · exact hv
      · obtain ⟨k, hk⟩ := hI.cover p e hp (by simpa using hv)
        have := lt_size_of_some hk
        omega
    · simp only [hz, if_false] at h
      obtain ⟨p, h1, hpop, hmin, hinj, hord, hmem⟩ := pop_spec hI hz
      rw [hpop] at h
      simp only [] at h
      split at h
      · cases h
      · obtain ⟨ep, hep, _, _⟩ := hmin
        have hmark : markVisited s.t p = some (tput s.t p { ep with visited := true }, ep) := by
          simp [markVisited, hep]
        rw [hmark] at h
        simp only [stopNow] at h
        have hI1 := hI.afterPop hep hinj hord hmem
        obtain ⟨s2, hf, hI2⟩ := foldl_relaxH_spec max ep.dist (g.adj p) hI1
        rw [hf] at h
        simp only [Bool.false_eq_true, if_false] at h
        exact ih s2 s' hI2 h

/-- the state `NewShortestPathSearchFromPoint` produces for a connected origin has a well-formed queue -/
theorem HInv.init (o : P) : HInv ({ t := initTable [o], heap := initHeap [o] } : HState P S α) := by
  have hh : (initHeap [o] : Array P) = #[o] := by simp [initHeap, dedup]
  rw [hh]
  have hidx : ∀ (k : Nat) (p : P), (#[o] : Array P)[k]? = some p → k = 0 ∧ p = o := by
    intro k p hk
    have := lt_size_of_some hk
    simp at this; subst this
    simp at hk; exact ⟨rfl, hk.symm⟩
  refine ⟨?_, ?_, ?_, ?_⟩
  · intro k p hk
    obtain ⟨_, hp⟩ := hidx k p hk
    subst hp
    exact ⟨{ visited := false, dist := Cost.zero, back := none }, by simp only; rw [initTable_get]; simp, rfl⟩
  · intro p e hp _
    simp only at hp
    rw [initTable_get] at hp
    by_cases hpo : p = o
    · subst hpo; exact ⟨0, by simp⟩
    · simp [hpo] at hp
  · intro a b p ha hb
    rw [(hidx a p ha).1, (hidx b p hb).1]
  · intro k hk0 hkn
    simp at hkn; omega

/-- … and for a point that is not connected (empty queue, empty table) -/
theorem HInv.initEmpty : HInv ({ t := initTable [], heap := initHeap [] } : HState P S α) := by
  have hh : (initHeap [] : Array P) = #[] := by simp [initHeap, dedup]
  rw [hh]
  refine ⟨?_, ?_, ?_, ?_⟩
  · intro k p hk; simp at hk
  · intro p e hp _; simp only at hp; rw [initTable_get] at hp; simp at hp
  · intro a b p ha _; simp at ha
  · intro k _ hkn; simp at hkn

end heap
section more
variable {P S α : Type} [DecidableEq P] [Cost α] [LawfulCost α]

theorem mem_dedup (l : List P) (x : P) : x ∈ dedup l ↔ x ∈ l := by
  induction l with
  | nil => simp [dedup]
  | cons y ys ih =>
    simp only [dedup, List.mem_cons, List.mem_filter, ih]
    by_cases h : x = y <;> simp [h]

theorem nodup_dedup (l : List P) : (dedup l).Nodup := by
  induction l with
  | nil => simp [dedup]
  | cons y ys ih =>
    simp only [dedup, List.nodup_cons, List.mem_filter]
    refine ⟨by simp, ?_⟩
    exact List.Nodup.sublist List.filter_sublist ih

/-- the state `NewShortestPathSearch…` produces for any list of origins (duplicates entered once) has a
well-formed queue -/
theorem HInv.initList (origins : List P) :
    HInv ({ t := initTable origins, heap := initHeap origins } : HState P S α) := by
  have hget : ∀ (k : Nat) (p : P), (initHeap origins)[k]? = some p → p ∈ origins := by
    intro k p hk
    simp only [initHeap, List.getElem?_toArray] at hk
    exact (mem_dedup origins p).mp (List.mem_iff_getElem?.mpr ⟨k, hk⟩)
  have hentry : ∀ p, p ∈ origins →
      tget (initTable origins : Table P S α) p = some { visited := false, dist := Cost.zero, back := none } := by
    intro p hp; rw [initTable_get]; simp [hp]
  refine ⟨?_, ?_, ?_, ?_⟩
  · intro k p hk
    exact ⟨_, hentry p (hget k p hk), rfl⟩
  · intro p e hp _
    simp only at hp
    rw [initTable_get] at hp
    by_cases hpo : p ∈ origins
    · obtain ⟨k, hk⟩ := List.mem_iff_getElem?.mp ((mem_dedup origins p).mpr hpo)
      exact ⟨k, by simp only [initHeap, List.getElem?_toArray]; exact hk⟩
    · simp [hpo] at hp
  · intro a b p ha hb
    simp only [initHeap, List.getElem?_toArray] at ha hb
    have hlt : a < (dedup origins).length := by
      rcases Nat.lt_or_ge a (dedup origins).length with h | h
      · exact h
      · rw [List.getElem?_eq_none h] at ha; cases ha
    exact (List.getElem?_inj hlt (nodup_dedup origins)).mp (ha.trans hb.symm)
  · intro k hk0 hkn pa pb ha hb
    have h1 := hentry pa (hget _ _ ha)
    have h2 := hentry pb (hget _ _ hb)
    intro ea eb hea heb
    simp only at hea heb
    rw [h1] at hea; rw [h2] at heb; cases hea; cases heb
    exact not_lt_of_le (le_rfl' _)


theorem isMinB_complete {t : Table P S α} {p : P} (hmin : IsMin t p) : isMinB t p = true := by
  obtain ⟨ep, hep, hepv, hm⟩ := hmin
  unfold isMinB
  simp only [hep, hepv, Bool.not_false, Bool.true_and, List.all_eq_true]
  intro ⟨q, x⟩ hqx
  obtain ⟨eq, heq⟩ := get_of_mem hqx
  simp only [heq]
  by_cases hv : eq.visited = true
  · simp [hv]
  · have hv' : eq.visited = false := by simpa using hv
    simp [hv', hm q eq heq hv']

/-! ### termination: every iteration settles one more point of a finite vertex set -/

/-- not settled yet (no entry, or an unvisited one) -/
def isOpen (t : Table P S α) (q : P) : Bool :=
  match tget t q with
  | some e => !e.visited
  | none => true

/-- how many of the vertices `V` are not settled yet -/
def cnt (V : List P) (t : Table P S α) : Nat := (V.filter (isOpen t)).length

theorem relax_isOpen (max d : α) (t : Table P S α) (e : Edge P S α) (q : P) :
    isOpen (relax max d t e) q = isOpen t q := by
  rcases relax_spec max d t e with ⟨heq, _⟩ | ⟨_, _, ne, heq, hnv, _, _, hold⟩
  · rw [heq]
  · rw [heq]
    unfold isOpen
    rw [get_put]
    by_cases hq : q = e.last
    · subst hq
      simp only [if_true, hnv]
      cases hg : tget t e.last with
      | none => rfl
      | some n => simp [(hold n hg).1]
    · simp [hq]

theorem foldl_relax_isOpen (max d : α) (es : List (Edge P S α)) (t : Table P S α) (q : P) :
    isOpen (es.foldl (relax max d) t) q = isOpen t q := by
  induction es generalizing t with
  | nil => rfl
  | cons e rest ih => simp only [List.foldl]; rw [ih, relax_isOpen]

theorem relax_keys {V : List P} (max d : α) (t : Table P S α) (e : Edge P S α) (he : e.last ∈ V)
    (hk : ∀ p x, tget t p = some x → p ∈ V) : ∀ p x, tget (relax max d t e) p = some x → p ∈ V := by
  intro p x hp
  rcases relax_spec max d t e with ⟨heq, _⟩ | ⟨_, _, ne, heq, _, _, _, _⟩
  · rw [heq] at hp; exact hk p x hp
  · rw [heq, get_put] at hp
    by_cases hq : p = e.last
    · rw [hq]; exact he
    · simp [hq] at hp; exact hk p x hp

theorem foldl_relax_keys {V : List P} (max d : α) (es : List (Edge P S α)) (hes : ∀ e, e ∈ es → e.last ∈ V) :
    ∀ (t : Table P S α), (∀ p x, tget t p = some x → p ∈ V) →
      ∀ p x, tget (es.foldl (relax max d) t) p = some x → p ∈ V := by
  induction es with
  | nil => intro t hk; exact hk
  | cons e rest ih =>
    intro t hk
    simp only [List.foldl]
    exact ih (fun e' he' => hes e' (List.mem_cons_of_mem _ he')) _
      (relax_keys max d t e (hes e List.mem_cons_self) hk)

theorem filter_length_lt {V : List P} {f f' : P → Bool} (hle : ∀ q, f' q = true → f q = true) {p : P}
    (hp : p ∈ V) (h1 : f p = true) (h2 : f' p = false) : (V.filter f').length < (V.filter f).length := by
  induction V with
  | nil => simp at hp
  | cons y ys ih =>
    have hmono : (ys.filter f').length ≤ (ys.filter f).length := by
      clear ih hp
      induction ys with
      | nil => simp
      | cons z zs ihz =>
        simp only [List.filter]
        cases hz' : f' z <;> cases hz : f z <;> simp <;> try omega
        have := hle z hz'; rw [hz] at this; cases this
    simp only [List.filter]
    by_cases hy : y = p
    · subst hy; simp [h1, h2]; omega
    · have := ih (by simpa [Ne.symm hy] using hp)
      cases hz' : f' y <;> cases hz : f y <;> simp <;> try omega
      have := hle y hz'; rw [hz] at this; cases this

/-- **Termination**: on a finite, closed vertex set the loop never runs out of fuel (and never gets stuck):
with at least as much fuel as there are unsettled vertices, `runH` finishes. -/
theorem runH_finishes (g : Graph P S α) (max : α) (to : Option P) (V : List P)
    (hclosed : ∀ p, p ∈ V → ∀ e, e ∈ g.adj p → e.last ∈ V) :
    ∀ (fuel : Nat) (s : HState P S α), HInv s → (∀ p x, tget s.t p = some x → p ∈ V) → cnt V s.t ≤ fuel →
      ∃ s', runH g max to fuel s = .done s' := by
  intro fuel
  induction fuel with
  | zero =>
    intro s hI hk hc
    unfold runH
    by_cases hz : s.heap.size = 0
    · exact ⟨s, by simp [hz]⟩
    · obtain ⟨p, hp⟩ := getElem?_lt (show 0 < s.heap.size by omega)
      obtain ⟨e, he, hev⟩ := hI.unvis 0 p hp
      have : p ∈ V.filter (isOpen s.t) := List.mem_filter.mpr ⟨hk p e he, by simp [isOpen, he, hev]⟩
      have := List.length_pos_of_mem this
      unfold cnt at hc; omega
  | succ fuel ih =>
    intro s hI hk hc
    unfold runH
    by_cases hz : s.heap.size = 0
    · exact ⟨s, by simp [hz]⟩
    · simp only [hz, if_false]
      obtain ⟨p, h1, hpop, hmin, hinj, hord, hmem⟩ := pop_spec hI hz
      rw [hpop]
      simp only [isMinB_complete hmin, Bool.not_true, Bool.false_eq_true, if_false]
      obtain ⟨ep, hep, hepv, _⟩ := hmin
      have hmark : markVisited s.t p = some (tput s.t p { ep with visited := true }, ep) := by
        simp [markVisited, hep]
      rw [hmark]
      simp only []
      by_cases hstop : stopNow to p (tput s.t p { ep with visited := true }) ep = true
      · exact ⟨{ t := tput s.t p { ep with visited := true }, heap := h1 }, by simp [hstop]⟩
      · simp only [hstop]
        have hI1 := hI.afterPop hep hinj hord hmem
        obtain ⟨s2, hf, hI2⟩ := foldl_relaxH_spec max ep.dist (g.adj p) hI1
        rw [hf]
        simp only [Bool.false_eq_true, if_false]
        have ht2 := foldl_relaxH_table max ep.dist (g.adj p) _ _ hf
        simp only at ht2
        have hpV : p ∈ V := hk p ep hep
        have hk1 : ∀ q x, tget (tput s.t p { ep with visited := true }) q = some x → q ∈ V := by
          intro q x hq
          rw [get_put] at hq
          by_cases hqp : q = p
          · rw [hqp]; exact hpV
          · simp [hqp] at hq; exact hk q x hq
        have hk2 : ∀ q x, tget s2.t q = some x → q ∈ V := by
          rw [ht2]
          exact foldl_relax_keys max ep.dist (g.adj p) (fun e he => hclosed p hpV e he) _ hk1
        have hc2 : cnt V s2.t < cnt V s.t := by
          unfold cnt
          apply filter_length_lt (p := p) _ hpV
          · simp [isOpen, hep, hepv]
          · rw [ht2, foldl_relax_isOpen]; simp [isOpen, get_put_self]
          · intro q hq
            rw [ht2, foldl_relax_isOpen] at hq
            unfold isOpen at hq ⊢
            rw [get_put] at hq
            by_cases hqp : q = p
            · simp [hqp] at hq
            · simpa [hqp] using hq
        exact ih s2 hI2 hk2 (by omega)


/-! ### `ExpandSearchTo` with the real queue -/

theorem relax_keeps_unvisited (max d : α) (t : Table P S α) (e : Edge P S α) {q : P} {x : Entry P S α}
    (hx : tget t q = some x) (hv : x.visited = false) :
    ∃ x', tget (relax max d t e) q = some x' ∧ x'.visited = false := by
  rcases relax_spec max d t e with ⟨heq, _⟩ | ⟨_, _, ne, heq, hnv, _, _, _⟩
  · rw [heq]; exact ⟨x, hx, hv⟩
  · rw [heq, get_put]
    by_cases hq : q = e.last
    · exact ⟨ne, by simp [hq], hnv⟩
    · exact ⟨x, by simp [hq, hx], hv⟩

theorem foldl_relax_keeps_unvisited (max d : α) (es : List (Edge P S α)) :
    ∀ (t : Table P S α) {q : P} {x : Entry P S α}, tget t q = some x → x.visited = false →
      ∃ x', tget (es.foldl (relax max d) t) q = some x' ∧ x'.visited = false := by
  induction es with
  | nil => intro t q x hx hv; exact ⟨x, hx, hv⟩
  | cons e rest ih =>
    intro t q x hx hv
    obtain ⟨x1, h1, hv1⟩ := relax_keeps_unvisited max d t e hx hv
    exact ih _ h1 hv1

/-- the state after the first statements of `ExpandSearchTo(dest)`: the queue is well formed and `dest` is queued -/
theorem searchToStart_spec (origins : List P) (dest : P) (inf : α) :
    ∃ s : HState P S α, searchToStart origins dest inf = some s ∧ HInv s ∧
      (∃ de, tget s.t dest = some de ∧ de.visited = false) ∧
      s.t = (match tget (initTable origins : Table P S α) dest with
        | some _ => initTable origins
        | none => tput (initTable origins) dest { visited := false, dist := inf, back := none }) := by
  unfold searchToStart
  cases hd : tget (initTable origins : Table P S α) dest with
  | some e0 =>
    refine ⟨_, rfl, HInv.initList origins, ⟨e0, hd, ?_⟩, rfl⟩
    rw [initTable_get] at hd
    by_cases h : dest ∈ origins
    · simp [h] at hd; subst hd; rfl
    · simp [h] at hd
  | none =>
    obtain ⟨h', hp, hI⟩ := push_spec (ne := { visited := false, dist := inf, back := none })
      (HInv.initList (S := S) (α := α) origins) hd rfl
    refine ⟨{ t := sentinelTable origins dest inf, heap := h' }, ?_, hI, ⟨_, get_put_self _ _ _, rfl⟩, rfl⟩
    simp only [sentinelTable] at hp ⊢
    rw [hp]; rfl

/-- `ExpandSearchTo` on a well-formed queue that holds `dest`: a finished run went through states of the
abstract search and stopped exactly when `dest` was popped (as a queued minimum) and marked visited -/
theorem runH_to_spec (g : Graph P S α) (max : α) (dest : P) :
    ∀ (fuel : Nat) (s s' : HState P S α), HInv s → (∃ de, tget s.t dest = some de ∧ de.visited = false) →
      runH g max (some dest) fuel s = .done s' →
      ∃ tr t r, Reach g max s.t tr t ∧ IsMin t dest ∧ markVisited t dest = some (s'.t, r) := by
  intro fuel
  induction fuel with
  | zero =>
    intro s s' hI ⟨de, hde, hdv⟩ h
    unfold runH at h
    obtain ⟨k, hk⟩ := hI.cover dest de hde hdv
    have := lt_size_of_some hk
    simp [show s.heap.size ≠ 0 by omega] at h
  | succ fuel ih =>
    intro s s' hI ⟨de, hde, hdv⟩ h
    unfold runH at h
    obtain ⟨k, hk⟩ := hI.cover dest de hde hdv
    have hz : s.heap.size ≠ 0 := by have := lt_size_of_some hk; omega
    simp only [hz, if_false] at h
    obtain ⟨p, h1, hpop, hmin, hinj, hord, hmem⟩ := pop_spec hI hz
    rw [hpop] at h
    simp only [isMinB_complete hmin, Bool.not_true, Bool.false_eq_true, if_false] at h
    obtain ⟨ep, hep, hepv, hm⟩ := hmin
    have hmark : markVisited s.t p = some (tput s.t p { ep with visited := true }, ep) := by
      simp [markVisited, hep]
    rw [hmark] at h
    simp only [] at h
    by_cases hpd : p = dest
    · subst hpd
      simp [stopNow] at h
      cases h
      exact ⟨[], s.t, ep, Reach.refl, ⟨ep, hep, hepv, hm⟩, hmark⟩
    · have hstop : stopNow (some dest) p (tput s.t p { ep with visited := true }) ep = false := by
        have hdt : tget (tput s.t p { ep with visited := true }) dest = some de := by
          rw [get_put_ne _ _ (Ne.symm hpd)]; exact hde
        simp [stopNow, hpd, hdt, hm dest de hde hdv]
      rw [hstop] at h
      simp only [Bool.false_eq_true, if_false] at h
      have hI1 := hI.afterPop hep hinj hord hmem
      obtain ⟨s2, hf, hI2⟩ := foldl_relaxH_spec max ep.dist (g.adj p) hI1
      rw [hf] at h
      simp only [] at h
      have ht2 := foldl_relaxH_table max ep.dist (g.adj p) _ _ hf
      simp only at ht2
      have hd2 : ∃ de2, tget s2.t dest = some de2 ∧ de2.visited = false := by
        rw [ht2]
        exact foldl_relax_keeps_unvisited max ep.dist (g.adj p) _
          (by rw [get_put_ne _ _ (Ne.symm hpd)]; exact hde) hdv
      obtain ⟨tr, t, r, hr, hmin2, hmark2⟩ := ih s2 s' hI2 hd2 h
      have hexp : Model.Dijkstra.expand g max s.t p = some s2.t := by
        unfold Model.Dijkstra.expand
        rw [hmark]; simp [ht2]
      exact ⟨tr ++ [(p, ep.dist)], t, r, Reach.head ⟨ep, hep, hepv, hm⟩ hep hexp hr, hmin2, hmark2⟩

end more
end B6.Lemmas.DijkstraHeap
