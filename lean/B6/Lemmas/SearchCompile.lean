import B6.Lemmas.SearchPosting
/-!
# Compiled query trees refine the cursor of the list they denote (C06) — `compile_refines`

By induction on the query tree, for any depth.  Also: `sortDedup`, `interLists`, the token-prefix run of a
sorted token list, and the bound `(denote q).length ≤ Index.total` that gives every leapfrog loop its fuel.
-/
namespace B6.Lemmas.Search
open B6.Spec.Cursor B6.Spec.SearchQuery B6.Model.Search

/-! ## `sortDedup` -/

theorem mem_insertSorted (x : Nat) : ∀ (l : List Nat) (y : Nat), y ∈ insertSorted x l ↔ y = x ∨ y ∈ l
  | [], y => by simp [insertSorted]
  | z :: l, y => by
    unfold insertSorted
    split
    · simp
    · split
      · rename_i h; subst h; simp
      · simp only [List.mem_cons, mem_insertSorted x l y]
        constructor
        · rintro (h | h | h)
          · exact Or.inr (Or.inl h)
          · exact Or.inl h
          · exact Or.inr (Or.inr h)
        · rintro (h | h | h)
          · exact Or.inr (Or.inl h)
          · exact Or.inl h
          · exact Or.inr (Or.inr h)

theorem insertSorted_sorted (x : Nat) : ∀ l : List Nat, StrictSorted l → StrictSorted (insertSorted x l)
  | [], _ => by simp [insertSorted, StrictSorted]
  | z :: l, h => by
    unfold insertSorted
    have hz := strictSorted_cons.1 h
    split
    · rename_i hxz
      rw [strictSorted_cons]
      refine ⟨?_, h⟩
      intro y hy
      rcases List.mem_cons.1 hy with rfl | hy
      · exact hxz
      · have := hz.1 y hy; omega
    · split
      · exact h
      · rw [strictSorted_cons]
        refine ⟨?_, insertSorted_sorted x l hz.2⟩
        intro y hy
        rcases (mem_insertSorted x l y).1 hy with rfl | hy
        · omega
        · exact hz.1 y hy

theorem mem_sortDedup (l : List Nat) (y : Nat) : y ∈ sortDedup l ↔ y ∈ l := by
  induction l with
  | nil => simp [sortDedup]
  | cons x l ih =>
    have : sortDedup (x :: l) = insertSorted x (sortDedup l) := rfl
    rw [this, mem_insertSorted, ih]; simp

theorem sortDedup_sorted (l : List Nat) : StrictSorted (sortDedup l) := by
  induction l with
  | nil => simp [sortDedup, StrictSorted]
  | cons x l ih => exact insertSorted_sorted x _ ih

theorem mem_interLists (l : List Nat) (ls : List (List Nat)) (x : Nat) :
    x ∈ interLists (l :: ls) ↔ ∀ l' ∈ l :: ls, x ∈ l' := by
  simp [interLists]

theorem interLists_sorted (l : List Nat) (ls : List (List Nat)) (h : StrictSorted l) :
    StrictSorted (interLists (l :: ls)) := by
  unfold interLists StrictSorted at *; exact h.filter _

/-! ## tokens: the run of tokens with a given prefix in a sorted token list -/

theorem prefix_not_lt : ∀ (p t : Token), p.isPrefixOf t = true → ¬ t < p
  | [], t, _ => List.not_lt_nil t
  | a :: p, [], h => by simp [List.isPrefixOf] at h
  | a :: p, b :: t, h => by
    rw [List.isPrefixOf_cons_cons] at h
    simp only [Bool.and_eq_true, beq_iff_eq] at h
    obtain ⟨rfl, h2⟩ := h
    rw [List.cons_lt_cons_iff]
    rintro (h3 | ⟨_, h3⟩)
    · exact absurd h3 (by simp [Char.lt_irrefl])
    · exact prefix_not_lt p t h2 h3

/-- the strings with prefix `p` form an interval starting at `p` -/
theorem prefix_interval : ∀ (p y t : Token), ¬ y < p → y < t → p.isPrefixOf t = true → p.isPrefixOf y = true
  | [], _, _, _, _, _ => by simp [List.isPrefixOf]
  | a :: p, [], _, h1, _, _ => absurd (List.nil_lt_cons a p) h1
  | a :: p, b :: y, [], _, h2, _ => absurd h2 (List.not_lt_nil _)
  | a :: p, b :: y, c :: t, h1, h2, h3 => by
    rw [List.isPrefixOf_cons_cons] at h3 ⊢
    simp only [Bool.and_eq_true, beq_iff_eq] at h3 ⊢
    obtain ⟨rfl, h3⟩ := h3
    rw [List.cons_lt_cons_iff] at h1 h2
    rcases h2 with h2 | ⟨rfl, h2⟩
    · exact absurd (Or.inl h2) h1
    · refine ⟨rfl, prefix_interval p y t ?_ h2 h3⟩
      intro h4; exact h1 (Or.inr ⟨rfl, h4⟩)

theorem mem_takeWhile_of_sorted {α : Type} (r : α → α → Prop) (pred : α → Bool) :
    ∀ (l : List α) (e : α), l.Pairwise r → e ∈ l → pred e = true →
      (∀ y ∈ l, r y e → pred y = true) → e ∈ l.takeWhile pred
  | [], _, _, h, _, _ => by simp at h
  | y :: l, e, hs, he, hp, hbefore => by
    rw [List.pairwise_cons] at hs
    rcases List.mem_cons.1 he with rfl | he
    · simp [hp]
    · have hy : pred y = true := hbefore y (by simp) (hs.1 e he)
      rw [List.takeWhile_cons, hy]
      simp only [↓reduceIte, List.mem_cons]
      exact Or.inr (mem_takeWhile_of_sorted r pred l e hs.2 he hp
        (fun z hz hze => hbefore z (List.mem_cons_of_mem _ hz) hze))

theorem mem_dropWhile_of_not {α : Type} (pred : α → Bool) (l : List α) (e : α) (he : e ∈ l)
    (hp : pred e = false) : e ∈ l.dropWhile pred := by
  induction l with
  | nil => simp at he
  | cons y l ih =>
    rw [List.dropWhile_cons]
    split
    · rename_i hy
      rcases List.mem_cons.1 he with rfl | he
      · rw [hp] at hy; simp at hy
      · exact ih he
    · exact he

theorem mem_of_mem_takeWhile {α : Type} (pred : α → Bool) (l : List α) (e : α) (h : e ∈ l.takeWhile pred) :
    e ∈ l ∧ pred e = true := by
  induction l with
  | nil => simp at h
  | cons y l ih =>
    rw [List.takeWhile_cons] at h
    split at h
    · rename_i hy
      rcases List.mem_cons.1 h with rfl | h
      · exact ⟨by simp, hy⟩
      · exact ⟨List.mem_cons_of_mem _ (ih h).1, (ih h).2⟩
    · simp at h

theorem mem_of_mem_dropWhile {α : Type} (pred : α → Bool) (l : List α) (e : α) (h : e ∈ l.dropWhile pred) :
    e ∈ l :=
  (List.dropWhile_sublist pred).subset h

/-- the scan of `newTokenPrefix` finds exactly the entries whose token has the prefix -/
theorem prefixRun_spec (ix : Index) (hv : ix.Valid) (p : Token) :
    (prefixRun ix p = none → ∀ e ∈ ix.lists, p.isPrefixOf e.1 = false) ∧
    (∀ run, prefixRun ix p = some run → ∀ e, e ∈ run ↔ e ∈ ix.lists ∧ p.isPrefixOf e.1 = true) := by
  have hsorted : ix.lists.Pairwise (fun a b => a.1 < b.1) := by
    have := hv.1; rw [List.pairwise_map] at this; exact this
  have hD : (ix.lists.dropWhile (fun e => decide (e.1 < p))).Pairwise (fun a b => a.1 < b.1) :=
    hsorted.sublist (List.dropWhile_sublist _)
  have hin : ∀ e ∈ ix.lists, p.isPrefixOf e.1 = true → e ∈ ix.lists.dropWhile (fun e => decide (e.1 < p)) := by
    intro e he hp
    apply mem_dropWhile_of_not _ _ _ he
    simpa using prefix_not_lt p e.1 hp
  unfold prefixRun
  constructor
  · intro h e he
    cases hp : p.isPrefixOf e.1 with
    | false => rfl
    | true =>
      have := hin e he hp
      cases hd : ix.lists.dropWhile (fun e => decide (e.1 < p)) with
      | nil => rw [hd] at this; simp at this
      | cons a l => rw [hd] at h; simp at h
  · intro run h e
    cases hd : ix.lists.dropWhile (fun e => decide (e.1 < p)) with
    | nil => rw [hd] at h; simp at h
    | cons a l =>
      rw [hd] at h
      simp only [Option.some.injEq] at h
      subst h
      rw [← hd]
      constructor
      · intro he
        obtain ⟨h1, h2⟩ := mem_of_mem_takeWhile _ _ _ he
        exact ⟨mem_of_mem_dropWhile _ _ _ h1, h2⟩
      · rintro ⟨he, hp⟩
        apply mem_takeWhile_of_sorted (fun a b : Token × List Nat => a.1 < b.1) _ _ e hD (hin e he hp) hp
        intro y hy hye
        -- `y` is in the dropped-while part, so `¬ y.1 < p`... unless it is the head; use sortedness
        have hynot : ¬ y.1 < p := by
          have hne : ix.lists.dropWhile (fun e => decide (e.1 < p)) ≠ [] := by rw [hd]; simp
          have hhead := List.head_dropWhile_not (fun e : Token × List Nat => decide (e.1 < p)) hne
          simp only [hd, List.head_cons, decide_eq_false_iff_not] at hhead
          rw [hd] at hy hD
          rcases List.mem_cons.1 hy with rfl | hy
          · exact hhead
          · have := (List.pairwise_cons.1 hD).1 y hy
            intro hyp
            exact hhead (List.lt_trans this hyp)
        exact prefix_interval p y.1 e.1 hynot hye hp

/-! ## list forms of the mutual definitions -/

theorem compileList_eq (F : Nat) (ix : Index) : ∀ qs, compileList F ix qs = qs.map (compile F ix)
  | [] => by simp [compileList]
  | q :: qs => by simp [compileList, compileList_eq F ix qs]

theorem denoteList_eq (ix : Index) : ∀ qs, SQuery.denoteList ix qs = qs.map (SQuery.denote ix)
  | [] => by simp [SQuery.denoteList]
  | q :: qs => by simp [SQuery.denoteList, denoteList_eq ix qs]

theorem depth_le_depthList : ∀ (qs : List SQuery) (q : SQuery), q ∈ qs → depth q ≤ depthList qs
  | [], _, h => by simp at h
  | q' :: qs, q, h => by
    simp only [depthList]
    rcases List.mem_cons.1 h with rfl | h
    · omega
    · have := depth_le_depthList qs q h; omega

theorem wfList_iff : ∀ qs : List SQuery, SQuery.WFList qs ↔ ∀ q ∈ qs, q.WF
  | [] => by simp [SQuery.WFList]
  | q :: qs => by simp [SQuery.WFList, wfList_iff qs]

/-! ## what a query denotes is strictly increasing and drawn from the index -/

def allValues (ix : Index) : List Nat := (ix.lists.map (·.2)).flatten

theorem get_spec (ix : Index) (hv : ix.Valid) (t : Token) :
    StrictSorted (ix.get t) ∧ ∀ x ∈ ix.get t, x ∈ allValues ix := by
  unfold Index.get Index.lookup
  cases hf : ix.lists.find? (fun e => e.1 == t) with
  | none => simp [StrictSorted]
  | some e =>
    have he := List.mem_of_find?_eq_some hf
    simp only [Option.map_some]
    refine ⟨hv.2 e he, fun x hx => ?_⟩
    unfold allValues
    exact List.mem_flatten.2 ⟨e.2, List.mem_map.2 ⟨e, he, rfl⟩, hx⟩

theorem denote_spec (ix : Index) (hv : ix.Valid) : (q : SQuery) →
    StrictSorted (q.denote ix) ∧ ∀ x ∈ q.denote ix, x ∈ allValues ix
  | .empty => by simp [SQuery.denote, StrictSorted]
  | .all t => by simp only [SQuery.denote]; exact get_spec ix hv t
  | .union qs => by
    simp only [SQuery.denote]
    refine ⟨sortDedup_sorted _, fun x hx => ?_⟩
    rw [mem_sortDedup, denoteList_eq] at hx
    obtain ⟨l, hl, hxl⟩ := List.mem_flatten.1 hx
    obtain ⟨q, hq, rfl⟩ := List.mem_map.1 hl
    exact (denote_spec ix hv q).2 x hxl
  | .inter qs => by
    simp only [SQuery.denote]
    rw [denoteList_eq]
    cases qs with
    | nil => simp [interLists, StrictSorted]
    | cons q qs =>
      simp only [List.map_cons]
      have ih := denote_spec ix hv q
      refine ⟨interLists_sorted _ _ ih.1, fun x hx => ?_⟩
      rw [mem_interLists] at hx
      exact ih.2 x (hx _ (by simp))
  | .keyRange b e q => by
    simp only [SQuery.denote]
    have ih := denote_spec ix hv q
    exact ⟨rangeList_sorted ih.1, fun x hx => ih.2 x (mem_rangeList.1 hx).1⟩
  | .tokenPrefix p => by
    simp only [SQuery.denote]
    refine ⟨sortDedup_sorted _, fun x hx => ?_⟩
    rw [mem_sortDedup] at hx
    obtain ⟨l, hl, hxl⟩ := List.mem_flatten.1 hx
    obtain ⟨e, he, rfl⟩ := List.mem_map.1 hl
    unfold allValues
    exact List.mem_flatten.2 ⟨e.2, List.mem_map.2 ⟨e, (List.mem_filter.1 he).1, rfl⟩, hxl⟩
termination_by q => sizeOf q
decreasing_by
  all_goals simp_wf
  · have := List.sizeOf_lt_of_mem hq; omega
  · omega
  · omega

/-- enough fuel for every leapfrog loop -/
theorem denote_length_le (ix : Index) (hv : ix.Valid) (q : SQuery) : (q.denote ix).length ≤ ix.total := by
  obtain ⟨h1, h2⟩ := denote_spec ix hv q
  exact List.Nodup.length_le_of_subset h1.nodup (fun x hx => h2 x hx)

/-! ## the closed operations restricted to one constructor -/

theorem ops_dom (K : Nat → Prop) (F d k : Nat) (hk : K k) : (ops K F d).dom k := by cases d <;> exact hk

theorem dom_ops {K : Nat → Prop} {F d k : Nat} (hk : (ops K F d).dom k) : K k := by cases d <;> exact hk

theorem leaf_embed (K : Nat → Prop) (F d : Nat) {l : Leaf} {c : Cursor} (h : RefinesAt Leaf.ops l c) :
    RefinesAt (ops K F d) (.leaf l) c := by
  apply refinesAt_embed Iter.leaf _ _ _ _ h
  · intro t; cases d <;> rfl
  · intro k t; cases d <;> rfl
  · intro t; cases d <;> rfl
  · intro _ _; trivial

theorem empty_embed (K : Nat → Prop) (F d : Nat) : RefinesAt (ops K F d) .empty (start []) := by
  apply refinesAt_embed (fun _ : Unit => Iter.empty) _ _ _ _ empty_refines
  · intro t; cases d <;> rfl
  · intro k t; cases d <;> rfl
  · intro t; cases d <;> rfl
  · intro _ _; trivial

theorem union_embed (K : Nat → Prop) (F d : Nat) {st : UnionState Iter} {c : Cursor}
    (h : RefinesAt (Union.ops (ops K F d)) st c) : RefinesAt (ops K F (d + 1)) (.union st) c :=
  refinesAt_embed Iter.union (fun _ => rfl) (fun _ _ => rfl) (fun _ => rfl) (fun k hk => ops_dom K F d k hk) h

theorem inter_embed (K : Nat → Prop) (F d : Nat) {its : List Iter} {c : Cursor}
    (h : RefinesAt (Inter.ops (ops K F d) F) its c) : RefinesAt (ops K F (d + 1)) (.inter its) c :=
  refinesAt_embed Iter.inter (fun _ => rfl) (fun _ _ => rfl) (fun _ => rfl) (fun k hk => ops_dom K F d k hk) h

theorem range_embed (K : Nat → Prop) (F d : Nat) {st : RangeState Iter} {c : Cursor}
    (h : RefinesAt (Range.ops (ops K F d)) st c) : RefinesAt (ops K F (d + 1)) (.range st) c :=
  refinesAt_embed Iter.range (fun _ => rfl) (fun _ _ => rfl) (fun _ => rfl) (fun k hk => ops_dom K F d k hk) h

theorem tprefix_embed (K : Nat → Prop) (F d : Nat) {it : Iter} {c : Cursor}
    (h : RefinesAt (ops K F d) it c) : RefinesAt (ops K F (d + 1)) (.tprefix it) c :=
  refinesAt_embed Iter.tprefix (fun _ => rfl) (fun _ _ => rfl) (fun _ => rfl) (fun k hk => ops_dom K F d k hk) h

/-! ## compact leaves -/

open B6.Model.Posting in
theorem pleafLift_eq (names : List String) (pl : PostingList) (r : Except B6.Model.Posting.Err (Bool × It)) :
    pleafLift names pl r = liftRes (fun s : PostingList × It => Iter.pleaf names s.1 s.2) (liftPosting pl r) := by
  cases r with
  | ok p => rfl
  | error e => cases e <;> rfl

open B6.Model.Posting in
/-- a compact leaf of the closed type is C08's iterator: transport `posting_refines` -/
theorem pleaf_embed (K : Nat → Prop) (F d : Nat) (names : List String)
    (hK : ∀ k, K k → TnOK ⟨names⟩ (k / 2 ^ 64)) {s : PostingList × It} {c : Cursor}
    (h : RefinesAt (postingOps ⟨names⟩) s c) : RefinesAt (ops K F d) (.pleaf names s.1 s.2) c := by
  apply refinesAt_embed (fun s : PostingList × It => Iter.pleaf names s.1 s.2) _ _ _ _ h
  · intro t
    cases d <;> exact pleafLift_eq names t.1 _
  · intro k t
    cases d <;> exact pleafLift_eq names t.1 _
  · intro t; cases d <;> rfl
  · intro k hk; exact hK k (dom_ops hk)

/-- what a compact index must satisfy for C08 to apply: a sorted namespace table of at most 8192 names, and every
posted key has a non-zero `TypeAndNamespace` that the table can decode -/
def CompactOK (ix : Index) : Prop :=
  ix.kind = .compact →
    B6.Model.Posting.TableOK ⟨ix.names⟩ ∧
    ∀ e ∈ ix.lists, ∀ x ∈ e.2, x / 2 ^ 64 ≠ 0 ∧ B6.Model.Posting.TnOK ⟨ix.names⟩ (x / 2 ^ 64)

theorem map_keyNat_unkey (xs : List Nat) : (xs.map unkey).map B6.Model.Posting.keyNat = xs := by
  rw [List.map_map]
  conv => rhs; rw [← List.map_id xs]
  apply List.map_congr_left
  intro x _
  simp only [Function.comp, unkey, B6.Model.Posting.keyNat, id]
  omega

open B6.Model.Posting in
theorem postingOK_unkey (tbl : Table) (xs : List Nat) (hs : StrictSorted xs)
    (hx : ∀ x ∈ xs, x / 2 ^ 64 ≠ 0 ∧ TnOK tbl (x / 2 ^ 64)) : PostingOK tbl (xs.map unkey) := by
  refine ⟨?_, ?_, ?_⟩
  · intro id hid
    obtain ⟨x, hxm, rfl⟩ := List.mem_map.1 hid
    exact ⟨Nat.mod_lt _ (by omega), (hx x hxm).1⟩
  · unfold SortedIds
    rw [List.pairwise_map]
    unfold StrictSorted at hs
    refine hs.imp ?_
    intro a b hab
    unfold idLt unkey
    simp only
    omega
  · intro id hid
    obtain ⟨x, hxm, rfl⟩ := List.mem_map.1 hid
    exact (hx x hxm).2

theorem dom_of_compactOK (ix : Index) (hc : CompactOK ix) : ∀ e ∈ ix.lists, ∀ x ∈ e.2, ix.dom x := by
  intro e he x hx
  unfold Index.dom
  cases hk : ix.kind with
  | compact => exact (hc hk).2 e he x hx |>.2
  | array => trivial
  | tree => trivial

/-- the iterator an index hands out for one of its posting lists refines the cursor of that list -/
theorem mkLeaf_refines (F d : Nat) (ix : Index) (hc : CompactOK ix) (xs : List Nat) (hs : StrictSorted xs)
    (hx : ∀ x ∈ xs, ix.kind = .compact →
      x / 2 ^ 64 ≠ 0 ∧ B6.Model.Posting.TnOK ⟨ix.names⟩ (x / 2 ^ 64)) :
    Refines (ops ix.dom F d) (mkLeaf ix xs) xs := by
  unfold mkLeaf
  cases hk : ix.kind with
  | compact =>
    obtain ⟨ht, _⟩ := hc hk
    have hok := postingOK_unkey ⟨ix.names⟩ xs hs (fun x hxm => hx x hxm hk)
    have href := posting_refines [] (xs.map unkey) ⟨ix.names⟩ ht hok
    rw [map_keyNat_unkey] at href
    exact pleaf_embed ix.dom F d ix.names
      (by intro k hkk; unfold Index.dom at hkk; rw [hk] at hkk; exact hkk) href
  | array => exact leaf_embed _ F d (leaf_refines .array xs hs)
  | tree => exact leaf_embed _ F d (leaf_refines .tree xs hs)

theorem indexBegin_refines (F d : Nat) (ix : Index) (hv : ix.Valid) (hc : CompactOK ix) (t : Token) :
    Refines (ops ix.dom F d) (indexBegin ix t) (ix.get t) := by
  have hs := (get_spec ix hv t).1
  unfold indexBegin Index.get at *
  unfold Index.lookup at *
  cases hl : ix.lists.find? (fun e => e.1 == t) with
  | none => exact empty_embed _ F d
  | some e =>
    rw [hl] at hs
    have he := List.mem_of_find?_eq_some hl
    simp only [Option.map_some] at hs ⊢
    exact mkLeaf_refines F d ix hc e.2 hs (fun x hx hk => (hc hk).2 e he x hx)

/-! ## the main induction -/

theorem keysInList_iff (K : Nat → Prop) : ∀ qs : List SQuery, SQuery.KeysInList K qs ↔ ∀ q ∈ qs, q.KeysIn K
  | [] => by simp [SQuery.KeysInList]
  | q :: qs => by simp [SQuery.KeysInList, keysInList_iff K qs]

theorem dom_of_mem_denote (ix : Index) (hv : ix.Valid) (hc : CompactOK ix) (q : SQuery) :
    ∀ x ∈ q.denote ix, ix.dom x := by
  intro x hx
  have := (denote_spec ix hv q).2 x hx
  unfold allValues at this
  obtain ⟨l, hl, hxl⟩ := List.mem_flatten.1 this
  obtain ⟨e, he, rfl⟩ := List.mem_map.1 hl
  exact dom_of_compactOK ix hc e he x hxl

/-- **compile_refines.** For a valid index of any kind (array, tree, or compact with a decodable namespace table),
any well-formed query tree (of any depth) whose key-range bounds lie in the index's key domain, fuel above the
size of the index and a depth index at least the tree's depth, the compiled iterator refines the spec cursor of
the list the query denotes — for call sequences whose `Advance` keys lie in the domain (all keys, for the in-memory
kinds). -/
theorem compile_refines (F : Nat) (ix : Index) (hv : ix.Valid) (hc : CompactOK ix) (hF : ix.total < F) :
    (q : SQuery) → q.WF → q.KeysIn ix.dom → ∀ d, depth q ≤ d →
      Refines (ops ix.dom F d) (compile F ix q) (q.denote ix)
  | .empty, _, _, d, _ => by
    simp only [compile, SQuery.denote]; exact empty_embed _ F d
  | .all t, _, _, d, _ => by
    simp only [compile, SQuery.denote]; exact indexBegin_refines F d ix hv hc t
  | .union qs, hw, hk, d, hd => by
    simp only [depth] at hd
    obtain ⟨d', rfl⟩ : ∃ d', d = d' + 1 := ⟨d - 1, by omega⟩
    simp only [SQuery.WF] at hw
    rw [wfList_iff] at hw
    simp only [SQuery.KeysIn] at hk
    rw [keysInList_iff] at hk
    simp only [compile, SQuery.denote]
    apply union_embed
    have := union_refines (ops ix.dom F d') (qs.map (fun q => (compile F ix q, q.denote ix)))
      (sortDedup (SQuery.denoteList ix qs).flatten)
      (by
        intro p hp
        obtain ⟨q, hq, rfl⟩ := List.mem_map.1 hp
        exact compile_refines F ix hv hc hF q (hw q hq) (hk q hq) d'
          (by have := depth_le_depthList qs q hq; omega))
      (sortDedup_sorted _)
      (by
        intro x
        rw [mem_sortDedup, denoteList_eq, List.mem_flatten]
        constructor
        · rintro ⟨l, hl, hx⟩
          obtain ⟨q, hq, rfl⟩ := List.mem_map.1 hl
          exact ⟨_, List.mem_map.2 ⟨q, hq, rfl⟩, hx⟩
        · rintro ⟨p, hp, hx⟩
          obtain ⟨q, hq, rfl⟩ := List.mem_map.1 hp
          exact ⟨_, List.mem_map.2 ⟨q, hq, rfl⟩, hx⟩)
    rw [List.map_map] at this
    rw [compileList_eq]
    exact this
  | .inter qs, hw, hk, d, hd => by
    simp only [depth] at hd
    obtain ⟨d', rfl⟩ : ∃ d', d = d' + 1 := ⟨d - 1, by omega⟩
    simp only [SQuery.WF] at hw
    obtain ⟨hne, hw⟩ := hw
    rw [wfList_iff] at hw
    simp only [SQuery.KeysIn] at hk
    rw [keysInList_iff] at hk
    simp only [compile, SQuery.denote, Inter.new]
    apply inter_embed
    have := inter_refines (ops ix.dom F d') F (ops (fun _ => True) F (depthList qs)).estimate
      (qs.map (fun q => (compile F ix q, q.denote ix))) (interLists (SQuery.denoteList ix qs))
      (by simpa using hne)
      (by
        intro p hp
        obtain ⟨q, hq, rfl⟩ := List.mem_map.1 hp
        refine ⟨compile_refines F ix hv hc hF q (hw q hq) (hk q hq) d'
          (by have := depth_le_depthList qs q hq; omega), ?_⟩
        have := denote_length_le ix hv q
        show (q.denote ix).length < F
        omega)
      (by
        rw [denoteList_eq]
        cases qs with
        | nil => exact absurd rfl hne
        | cons q qs => exact interLists_sorted _ _ (denote_spec ix hv q).1)
      (by
        intro x
        rw [denoteList_eq]
        cases qs with
        | nil => exact absurd rfl hne
        | cons q qs =>
          rw [List.map_cons, mem_interLists]
          constructor
          · intro h p hp
            obtain ⟨q', hq', rfl⟩ := List.mem_map.1 hp
            exact h _ (List.mem_map.2 ⟨q', hq', rfl⟩)
          · intro h l hl
            have hl' : l ∈ List.map (SQuery.denote ix) (q :: qs) := by simpa using hl
            obtain ⟨q', hq', rfl⟩ := List.mem_map.1 hl'
            exact h _ (List.mem_map.2 ⟨q', hq', rfl⟩))
      (by
        intro p hp x hx
        obtain ⟨q, hq, rfl⟩ := List.mem_map.1 hp
        exact ops_dom _ F d' x (dom_of_mem_denote ix hv hc q x hx))
    rw [List.map_map] at this
    rw [compileList_eq]
    exact this
  | .keyRange b e q, hw, hk, d, hd => by
    simp only [depth] at hd
    obtain ⟨d', rfl⟩ : ∃ d', d = d' + 1 := ⟨d - 1, by omega⟩
    simp only [SQuery.WF] at hw
    simp only [SQuery.KeysIn] at hk
    simp only [compile, SQuery.denote]
    apply range_embed
    exact range_refines (ops ix.dom F d') b e (compile_refines F ix hv hc hF q hw hk.2 d' (by omega))
      (ops_dom _ F d' b hk.1)
  | .tokenPrefix p, _, _, d, hd => by
    simp only [depth] at hd
    obtain ⟨d', rfl⟩ : ∃ d', d = d' + 2 := ⟨d - 2, by omega⟩
    obtain ⟨hnone, hsome⟩ := prefixRun_spec ix hv p
    simp only [compile, SQuery.denote]
    cases hr : prefixRun ix p with
    | none =>
      have : ix.lists.filter (fun e => p.isPrefixOf e.1) = [] := by
        rw [List.filter_eq_nil_iff]
        intro e he; rw [hnone hr e he]; simp
      rw [this]
      exact empty_embed _ F _
    | some run =>
      simp only
      apply tprefix_embed
      apply union_embed
      have := union_refines (ops ix.dom F d') (run.map (fun e => (mkLeaf ix e.2, e.2)))
        (sortDedup ((ix.lists.filter (fun e => p.isPrefixOf e.1)).map (·.2)).flatten)
        (by
          intro q hq
          obtain ⟨e, he, rfl⟩ := List.mem_map.1 hq
          have hel := ((hsome run hr e).1 he).1
          exact mkLeaf_refines F d' ix hc e.2 (hv.2 e hel) (fun x hx hk => (hc hk).2 e hel x hx))
        (sortDedup_sorted _)
        (by
          intro x
          rw [mem_sortDedup, List.mem_flatten]
          constructor
          · rintro ⟨l, hl, hx⟩
            obtain ⟨e, he, rfl⟩ := List.mem_map.1 hl
            have he' := List.mem_filter.1 he
            exact ⟨_, List.mem_map.2 ⟨e, (hsome run hr e).2 ⟨he'.1, he'.2⟩, rfl⟩, hx⟩
          · rintro ⟨q, hq, hx⟩
            obtain ⟨e, he, rfl⟩ := List.mem_map.1 hq
            have he' := (hsome run hr e).1 he
            exact ⟨e.2, List.mem_map.2 ⟨e, List.mem_filter.2 ⟨he'.1, he'.2⟩, rfl⟩, hx⟩)
      rw [List.map_map] at this
      exact this
termination_by q => sizeOf q
decreasing_by
  all_goals simp_wf
  · have := List.sizeOf_lt_of_mem hq; omega
  · have := List.sizeOf_lt_of_mem hq; omega
  · omega

end B6.Lemmas.Search
