import B6.Model.WorldRead
/-!
Helper lemmas for C02: membership in `dedup`, soundness and first-level completeness of the referrers
closure, typing of the closure.
-/
namespace B6.Lemmas.WorldRead
open B6.Model.WorldRead

theorem mem_dedup (l : List Id) (y : Id) : y ∈ dedup l ↔ y ∈ l := by
  induction l with
  | nil => simp [dedup]
  | cons a t ih =>
    unfold dedup at *
    simp only [List.foldr_cons]
    by_cases h : (List.foldr (fun x acc => if acc.contains x = true then acc else x :: acc) [] t).contains a = true
    · simp only [h, ite_true, List.mem_cons]
      rw [ih]
      constructor
      · intro hy; exact Or.inr hy
      · intro hy
        cases hy with
        | inl hy => subst hy; exact ih.mp (by simpa using h)
        | inr hy => exact hy
    · have h' : (List.foldr (fun x acc => if acc.contains x = true then acc else x :: acc) [] t).contains a = false := by
        simpa using h
      simp only [h', Bool.false_eq_true, ite_false, List.mem_cons]
      rw [ih]

/-- the visited list only grows -/
theorem seen_subset_expand (d : Id → List Id) (fuel : Nat) : ∀ (seen frontier : List Id) (y : Id),
    y ∈ seen → y ∈ expand d fuel seen frontier := by
  induction fuel with
  | zero => intro seen frontier y h; simpa [expand] using h
  | succ n ih =>
    intro seen frontier y h
    unfold expand
    simp only
    split
    · exact h
    · exact ih _ _ y (List.mem_append_left _ h)

/-- everything the closure visits was already visited, or refers directly to the start or to something visited -/
theorem expand_sound (d : Id → List Id) (fuel : Nat) : ∀ (seen frontier : List Id) (y : Id),
    y ∈ expand d fuel seen frontier →
    y ∈ seen ∨ ∃ z, (z ∈ frontier ∨ z ∈ expand d fuel seen frontier) ∧ y ∈ d z := by
  induction fuel with
  | zero => intro seen frontier y h; exact Or.inl (by simpa [expand] using h)
  | succ n ih =>
    intro seen frontier y h
    unfold expand at h ⊢
    simp only at h ⊢
    split at h
    · rename_i he; simp only [he, ite_true]; exact Or.inl h
    · rename_i he
      simp only [he]
      cases ih _ _ y h with
      | inl hm =>
        rw [List.mem_append] at hm
        cases hm with
        | inl hs => exact Or.inl hs
        | inr hn =>
          have hn' := (mem_dedup _ _).mp hn
          have hn'' := (List.mem_filter.mp hn').1
          rw [List.mem_flatMap] at hn''
          obtain ⟨z, hz, hyz⟩ := hn''
          exact Or.inr ⟨z, Or.inl hz, hyz⟩
      | inr hex =>
        obtain ⟨z, hz, hyz⟩ := hex
        refine Or.inr ⟨z, Or.inr ?_, hyz⟩
        cases hz with
        | inl hz => exact seen_subset_expand d n _ _ z (List.mem_append_right _ hz)
        | inr hz => exact hz

theorem closure_sound (w : World) (x y : Id) (h : y ∈ closure w x) :
    ∃ z, (z = x ∨ z ∈ closure w x) ∧ y ∈ directReferrers w z := by
  unfold closure at h ⊢
  cases expand_sound (directReferrers w) _ [] [x] y h with
  | inl h0 => simp at h0
  | inr hex =>
    obtain ⟨z, hz, hyz⟩ := hex
    refine ⟨z, ?_, hyz⟩
    cases hz with
    | inl hz => exact Or.inl (by simpa using hz)
    | inr hz => exact Or.inr hz

/-- the direct referrers of the start are always found -/
theorem direct_subset_closure (w : World) (x y : Id) (h : y ∈ directReferrers w x) : y ∈ closure w x := by
  unfold closure expand
  simp only
  have hy : y ∈ dedup ((List.flatMap (directReferrers w) [x]).filter fun y => !([] : List Id).contains y) := by
    rw [mem_dedup]
    simp [h]
  split
  · rename_i he
    have : y ∈ ([] : List Id) := by
      have hne := List.isEmpty_iff.mp he
      rw [hne] at hy; exact hy
    simp at this
  · exact seen_subset_expand _ _ _ _ y (List.mem_append_right _ hy)

/-- Two "direct referrers" functions that agree as sets on a class `P` of ids which the first one never leaves give
the same closure (as a set) from a frontier inside `P`. -/
theorem expand_congr (d1 d2 : Id → List Id) (P : Id → Prop)
    (hclosed : ∀ z, P z → ∀ y ∈ d1 z, P y) (heq : ∀ z, P z → ∀ y, y ∈ d1 z ↔ y ∈ d2 z) (fuel : Nat) :
    ∀ (s1 s2 f1 f2 : List Id), (∀ z ∈ f1, P z) → (∀ y, y ∈ s1 ↔ y ∈ s2) → (∀ y, y ∈ f1 ↔ y ∈ f2) →
    ∀ y, y ∈ expand d1 fuel s1 f1 ↔ y ∈ expand d2 fuel s2 f2 := by
  induction fuel with
  | zero => intro s1 s2 f1 f2 _ hs _ y; simpa [expand] using hs y
  | succ n ih =>
    intro s1 s2 f1 f2 hP hs hf y
    have hnew : ∀ y, y ∈ dedup ((f1.flatMap d1).filter fun y => !s1.contains y) ↔
        y ∈ dedup ((f2.flatMap d2).filter fun y => !s2.contains y) := by
      intro y
      simp only [mem_dedup, List.mem_filter, List.mem_flatMap, Bool.not_eq_true', List.contains_eq_mem,
        decide_eq_false_iff_not]
      constructor
      · rintro ⟨⟨z, hz, hy⟩, hns⟩
        exact ⟨⟨z, (hf z).mp hz, (heq z (hP z hz) y).mp hy⟩, fun h => hns ((hs y).mpr h)⟩
      · rintro ⟨⟨z, hz, hy⟩, hns⟩
        have hz1 := (hf z).mpr hz
        exact ⟨⟨z, hz1, (heq z (hP z hz1) y).mpr hy⟩, fun h => hns ((hs y).mp h)⟩
    have hPnew : ∀ z ∈ dedup ((f1.flatMap d1).filter fun y => !s1.contains y), P z := by
      intro z hz
      have := (List.mem_filter.mp ((mem_dedup _ _).mp hz)).1
      obtain ⟨z0, hz0, hzz⟩ := List.mem_flatMap.mp this
      exact hclosed z0 (hP z0 hz0) z hzz
    have hemp : (dedup ((f1.flatMap d1).filter fun y => !s1.contains y)).isEmpty =
        (dedup ((f2.flatMap d2).filter fun y => !s2.contains y)).isEmpty := by
      generalize dedup ((f1.flatMap d1).filter fun y => !s1.contains y) = n1 at hnew
      generalize dedup ((f2.flatMap d2).filter fun y => !s2.contains y) = n2 at hnew
      cases n1 with
      | nil =>
        cases n2 with
        | nil => rfl
        | cons b t => have := (hnew b).mpr (by simp); simp at this
      | cons a t =>
        cases n2 with
        | nil => have := (hnew a).mp (by simp); simp at this
        | cons b t' => rfl
    unfold expand
    simp only
    rw [← hemp]
    split
    · exact hs y
    · apply ih _ _ _ _ hPnew
      · intro y
        simp only [List.mem_append]
        rw [hs y, hnew y]
      · exact hnew

end B6.Lemmas.WorldRead
