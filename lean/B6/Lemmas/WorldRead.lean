import B6.Model.WorldRead
/-!
Helper lemmas for C02: membership in `dedup`, soundness and first-level completeness of the referrers
closure, typing of the closure.
-/
namespace B6.Lemmas.WorldRead
open B6.Model.WorldRead

theorem mem_dedup (l : List Id) (y : Id) : y ∈ dedup l ↔ y ∈ l := by
  induction l with
  | nil => simp [dedup]
  | cons a t ih =>
    unfold dedup at *
    simp only [List.foldr_cons]
    by_cases h : (List.foldr (fun x acc => if acc.contains x = true then acc else x :: acc) [] t).contains a = true
    · simp only [h, ite_true, List.mem_cons]
      rw [ih]
      constructor
      · intro hy; exact Or.inr hy
      · intro hy
        cases hy with
        | inl hy => subst hy; exact ih.mp (by simpa using h)
        | inr hy => exact hy
    · have h' : (List.foldr (fun x acc => if acc.contains x = true then acc else x :: acc) [] t).contains a = false := by
        simpa using h
      simp only [h', Bool.false_eq_true, ite_false, List.mem_cons]
      rw [ih]

/-- the visited list only grows -/
theorem seen_subset_expand (w : World) (fuel : Nat) : ∀ (seen frontier : List Id) (y : Id),
    y ∈ seen → y ∈ expand w fuel seen frontier := by
  induction fuel with
  | zero => intro seen frontier y h; simpa [expand] using h
  | succ n ih =>
    intro seen frontier y h
    unfold expand
    simp only
    split
    · exact h
    · exact ih _ _ y (List.mem_append_left _ h)

/-- everything the closure visits was already visited, or refers directly to the start or to something visited -/
theorem expand_sound (w : World) (fuel : Nat) : ∀ (seen frontier : List Id) (y : Id),
    y ∈ expand w fuel seen frontier →
    y ∈ seen ∨ ∃ z, (z ∈ frontier ∨ z ∈ expand w fuel seen frontier) ∧ y ∈ directReferrers w z := by
  induction fuel with
  | zero => intro seen frontier y h; exact Or.inl (by simpa [expand] using h)
  | succ n ih =>
    intro seen frontier y h
    unfold expand at h ⊢
    simp only at h ⊢
    split at h
    · rename_i he; simp only [he, ite_true]; exact Or.inl h
    · rename_i he
      simp only [he]
      cases ih _ _ y h with
      | inl hm =>
        rw [List.mem_append] at hm
        cases hm with
        | inl hs => exact Or.inl hs
        | inr hn =>
          have hn' := (mem_dedup _ _).mp hn
          have hn'' := (List.mem_filter.mp hn').1
          rw [List.mem_flatMap] at hn''
          obtain ⟨z, hz, hyz⟩ := hn''
          exact Or.inr ⟨z, Or.inl hz, hyz⟩
      | inr hex =>
        obtain ⟨z, hz, hyz⟩ := hex
        refine Or.inr ⟨z, Or.inr ?_, hyz⟩
        cases hz with
        | inl hz => exact seen_subset_expand w n _ _ z (List.mem_append_right _ hz)
        | inr hz => exact hz

theorem closure_sound (w : World) (x y : Id) (h : y ∈ closure w x) :
    ∃ z, (z = x ∨ z ∈ closure w x) ∧ y ∈ directReferrers w z := by
  unfold closure at h ⊢
  cases expand_sound w _ [] [x] y h with
  | inl h0 => simp at h0
  | inr hex =>
    obtain ⟨z, hz, hyz⟩ := hex
    refine ⟨z, ?_, hyz⟩
    cases hz with
    | inl hz => exact Or.inl (by simpa using hz)
    | inr hz => exact Or.inr hz

/-- the direct referrers of the start are always found -/
theorem direct_subset_closure (w : World) (x y : Id) (h : y ∈ directReferrers w x) : y ∈ closure w x := by
  unfold closure expand
  simp only
  have hy : y ∈ dedup ((List.flatMap (directReferrers w) [x]).filter fun y => !([] : List Id).contains y) := by
    rw [mem_dedup]
    simp [h]
  split
  · rename_i he
    have : y ∈ ([] : List Id) := by
      have hne := List.isEmpty_iff.mp he
      rw [hne] at hy; exact hy
    simp at this
  · exact seen_subset_expand w _ _ _ y (List.mem_append_right _ hy)

end B6.Lemmas.WorldRead
