import B6.Model.Service
import B6.Spec.ChangeSpec
/-! Helper lemmas for C26: `find`/`put`, and the three element-wise `Apply` loops against their specs. -/
namespace B6.Lemmas.Service
open B6.Model.Service B6.Spec.ChangeSpec

theorem find_put (w : World) (f : Feature) (id : FId) :
    find (put w f) id = if f.id = id then some f else find w id := by
  induction w with
  | nil => simp [put, find]
  | cons g rest ih =>
    unfold put
    by_cases h : g.id = f.id
    · simp only [h, ↓reduceIte, find]
      by_cases h2 : f.id = id
      · simp [h2]
      · simp [h2]
    · simp only [h, ↓reduceIte, find, ih]
      by_cases h2 : f.id = id
      · have : ¬ g.id = id := by rw [← h2]; exact h
        simp [h2, this]
      · simp [h2]

theorem find_id {w : World} {id : FId} {f : Feature} (h : find w id = some f) : f.id = id := by
  induction w with
  | nil => simp [find] at h
  | cons g rest ih =>
    unfold find at h
    by_cases hg : g.id = id
    · simp [hg] at h; rw [← h]; exact hg
    · simp [hg] at h; exact ih h

/-! ### single operations: frame and existence -/

theorem addFeature_find {w w' : World} {f : Feature} (h : addFeature w f = some w') (id : FId) :
    find w' id = if f.id = id then some f else find w id := by
  unfold addFeature at h
  split at h
  · simp at h; rw [← h]; exact find_put w f id
  · simp at h

theorem addTag_find {w w' : World} {t : FId} {k v : String} (h : addTag w t k v = some w') (id : FId) :
    (t ≠ id → find w' id = find w id) ∧ (find w' t).isSome := by
  unfold addTag at h
  split at h
  · simp at h
  · rename_i f hf
    simp at h
    have hid := find_id hf
    subst h
    constructor
    · intro hne
      rw [find_put]
      simp [hid, hne]
    · rw [find_put]; simp [hid]

theorem removeTag_find {w w' : World} {t : FId} {k : String} (h : removeTag w t k = some w') (id : FId) :
    (t ≠ id → find w' id = find w id) ∧ (find w' t).isSome := by
  unfold removeTag at h
  split at h
  · simp at h
  · rename_i f hf
    simp at h
    have hid := find_id hf
    subst h
    constructor
    · intro hne
      rw [find_put]
      simp [hid, hne]
    · rw [find_put]; simp [hid]

/-- existence is monotone under `put` -/
theorem put_keeps (w : World) (f : Feature) (id : FId) (h : (find w id).isSome) :
    (find (put w f) id).isSome := by
  rw [find_put]; split <;> simp [h]

/-! ### the loops -/

theorem addFeatures_loop (fs : List Feature) : ∀ (w : World) (seen : List FId),
    match addFeaturesSpec w fs with
    | some w' => (applyAddFeatures w fs seen).ok = true ∧ (applyAddFeatures w fs seen).world = w' ∧
        (∀ id, id ∈ (applyAddFeatures w fs seen).ids ↔ id ∈ seen ∨ id ∈ fs.map (·.id))
    | none => (applyAddFeatures w fs seen).ok = false := by
  induction fs with
  | nil => intro w seen; simp [addFeaturesSpec, applyAddFeatures]
  | cons f rest ih =>
    intro w seen
    unfold addFeaturesSpec applyAddFeatures
    cases hf : addFeature w f with
    | none => simp
    | some w1 =>
      simp only
      have := ih w1 (if f.id ∈ seen then seen else seen ++ [f.id])
      cases hs : addFeaturesSpec w1 rest with
      | none => simp [hs] at this ⊢; exact this
      | some w2 =>
        simp [hs] at this ⊢
        refine ⟨this.1, this.2.1, ?_⟩
        intro id
        rw [this.2.2 id]
        by_cases hm : f.id ∈ seen
        · simp [hm]
          constructor
          · rintro (h | h)
            · exact Or.inl h
            · exact Or.inr (Or.inr h)
          · rintro (h | h | h)
            · exact Or.inl h
            · exact Or.inl (h ▸ hm)
            · exact Or.inr h
        · simp [hm]
          constructor
          · rintro ((h | h) | h)
            · exact Or.inl h
            · exact Or.inr (Or.inl h)
            · exact Or.inr (Or.inr h)
          · rintro (h | h | h)
            · exact Or.inl (Or.inl h)
            · exact Or.inl (Or.inr h)
            · exact Or.inr h

theorem addTags_loop (ts : List (FId × String × String)) : ∀ (w : World) (acc : List FId),
    match addTagsSpec w ts with
    | some w' => (applyAddTags w ts acc).ok = true ∧ (applyAddTags w ts acc).world = w' ∧
        (applyAddTags w ts acc).ids = acc ++ ts.map (·.1)
    | none => (applyAddTags w ts acc).ok = false := by
  induction ts with
  | nil => intro w acc; simp [addTagsSpec, applyAddTags]
  | cons t rest ih =>
    intro w acc
    obtain ⟨id, k, v⟩ := t
    unfold addTagsSpec applyAddTags
    cases hf : addTag w id k v with
    | none => simp
    | some w1 =>
      simp only
      have := ih w1 (acc ++ [id])
      cases hs : addTagsSpec w1 rest with
      | none => simp [hs] at this ⊢; exact this
      | some w2 => simp [hs] at this ⊢; exact this

theorem removeTags_loop (ts : List (FId × String)) : ∀ (w : World) (acc : List FId),
    match removeTagsSpec w ts with
    | some w' => (applyRemoveTags w ts acc).ok = true ∧ (applyRemoveTags w ts acc).world = w' ∧
        (applyRemoveTags w ts acc).ids = acc ++ ts.map (·.1)
    | none => (applyRemoveTags w ts acc).ok = false := by
  induction ts with
  | nil => intro w acc; simp [removeTagsSpec, applyRemoveTags]
  | cons t rest ih =>
    intro w acc
    obtain ⟨id, k⟩ := t
    unfold removeTagsSpec applyRemoveTags
    cases hf : removeTag w id k with
    | none => simp
    | some w1 =>
      simp only
      have := ih w1 (acc ++ [id])
      cases hs : removeTagsSpec w1 rest with
      | none => simp [hs] at this ⊢; exact this
      | some w2 => simp [hs] at this ⊢; exact this

/-! ### frame / existence for the element-wise specs -/

theorem addFeaturesSpec_frame (fs : List Feature) : ∀ (w w' : World), addFeaturesSpec w fs = some w' →
    (∀ id, id ∉ fs.map (·.id) → find w' id = find w id) ∧
    (∀ id, (find w id).isSome ∨ id ∈ fs.map (·.id) → (find w' id).isSome) := by
  induction fs with
  | nil => intro w w' h; simp [addFeaturesSpec] at h; subst h; simp
  | cons f rest ih =>
    intro w w' h
    unfold addFeaturesSpec at h
    cases hf : addFeature w f with
    | none => simp [hf] at h
    | some w1 =>
      simp [hf] at h
      obtain ⟨fr, ex⟩ := ih w1 w' h
      have h1 := addFeature_find hf
      constructor
      · intro id hid
        simp at hid
        rw [fr id (by simp; exact hid.2), h1 id]
        have : ¬ f.id = id := fun e => hid.1 e.symm
        simp [this]
      · intro id hid
        apply ex
        by_cases e : f.id = id
        · left; rw [h1 id]; simp [e]
        · rcases hid with hid | hid
          · left; rw [h1 id]; simp [e, hid]
          · simp at hid
            rcases hid with hid | hid
            · exact absurd hid.symm e
            · right; simp; exact hid

theorem addTagsSpec_frame (ts : List (FId × String × String)) : ∀ (w w' : World), addTagsSpec w ts = some w' →
    (∀ id, id ∉ ts.map (·.1) → find w' id = find w id) ∧
    (∀ id, (find w id).isSome ∨ id ∈ ts.map (·.1) → (find w' id).isSome) := by
  induction ts with
  | nil => intro w w' h; simp [addTagsSpec] at h; subst h; simp
  | cons t rest ih =>
    intro w w' h
    obtain ⟨t, k, v⟩ := t
    unfold addTagsSpec at h
    cases hf : addTag w t k v with
    | none => simp [hf] at h
    | some w1 =>
      simp [hf] at h
      obtain ⟨fr, ex⟩ := ih w1 w' h
      constructor
      · intro id hid
        simp at hid
        have hne : t ≠ id := fun e => hid.1 e.symm
        rw [fr id (by simp; exact hid.2), ((addTag_find hf id).1 hne)]
      · intro id hid
        apply ex
        by_cases e : t = id
        · left; rw [← e]; exact (addTag_find hf id).2
        · rcases hid with hid | hid
          · left; rw [(addTag_find hf id).1 e]; exact hid
          · simp at hid
            rcases hid with hid | hid
            · exact absurd hid.symm e
            · right; simp; exact hid

theorem removeTagsSpec_frame (ts : List (FId × String)) : ∀ (w w' : World), removeTagsSpec w ts = some w' →
    (∀ id, id ∉ ts.map (·.1) → find w' id = find w id) ∧
    (∀ id, (find w id).isSome ∨ id ∈ ts.map (·.1) → (find w' id).isSome) := by
  induction ts with
  | nil => intro w w' h; simp [removeTagsSpec] at h; subst h; simp
  | cons t rest ih =>
    intro w w' h
    obtain ⟨t, k⟩ := t
    unfold removeTagsSpec at h
    cases hf : removeTag w t k with
    | none => simp [hf] at h
    | some w1 =>
      simp [hf] at h
      obtain ⟨fr, ex⟩ := ih w1 w' h
      constructor
      · intro id hid
        simp at hid
        have hne : t ≠ id := fun e => hid.1 e.symm
        rw [fr id (by simp; exact hid.2), ((removeTag_find hf id).1 hne)]
      · intro id hid
        apply ex
        by_cases e : t = id
        · left; rw [← e]; exact (removeTag_find hf id).2
        · rcases hid with hid | hid
          · left; rw [(removeTag_find hf id).1 e]; exact hid
          · simp at hid
            rcases hid with hid | hid
            · exact absurd hid.symm e
            · right; simp; exact hid

end B6.Lemmas.Service
