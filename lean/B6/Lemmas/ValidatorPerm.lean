import B6.Model.Validator
/-!
Helper lemmas for C36: a closed form of `validateArea` / `validateQueue`, and the invariant of the
validator fold.
-/
namespace B6.Lemmas.ValidatorPerm
open B6.Model.Validator

/-! ## closed form of `validateArea` -/

def isBad (o : Option St) : Bool := o == some .invalid || o == some .validNotLoop
def isPending (o : Option St) : Bool := o == none || o == some .unknown

def areaBad (m : PMap) (ps : List Nat) : Bool := ps.any fun p => isBad (m p)
def areaPending (m : PMap) (ps : List Nat) : Bool := ps.any fun p => isPending (m p)

/-- the state `validateArea` computes, as a function of the map alone -/
def classify (m : PMap) (ps : List Nat) : St :=
  if areaBad m ps then .invalid else if areaPending m ps then .unknown else .valid

/-- the marking `validateArea` leaves behind -/
def mark (m : PMap) (ps : List Nat) : PMap := fun x => if m x = none ∧ x ∈ ps then some .unknown else m x

def classOne (o : Option St) : St := if isBad o then .invalid else if isPending o then .unknown else .valid

def join (s c : St) : St :=
  if s = .invalid ∨ c = .invalid then .invalid else if s = .unknown ∨ c = .unknown then .unknown else .valid

def mark1 (m : PMap) (p : Nat) : PMap := fun x => if m x = none ∧ x = p then some .unknown else m x

theorem areaStep_eq (m : PMap) (s : St) (p : Nat) (hs : s ≠ .validNotLoop) :
    areaStep (m, s) p = (mark1 m p, join s (classOne (m p))) := by
  unfold areaStep
  cases h : m p with
  | none =>
    have : setP m p .unknown = mark1 m p := by
      funext x
      by_cases hx : x = p
      · subst hx; simp [setP, mark1, h]
      · simp [setP, mark1, hx]
    cases s <;> simp_all [join, classOne, isBad, isPending]
  | some s' =>
    have : mark1 m p = m := by
      funext x
      by_cases hx : x = p
      · subst hx; simp [mark1, h]
      · simp [mark1, hx]
    cases s' <;> cases s <;> simp_all [join, classOne, isBad, isPending]

theorem join_ne_notLoop (s c : St) : join s c ≠ .validNotLoop := by
  unfold join
  split
  · simp
  · split <;> simp

theorem isBad_mark1 (m : PMap) (p x : Nat) : isBad (mark1 m p x) = isBad (m x) := by
  unfold mark1; split
  · rename_i h; simp [isBad, h.1]
  · rfl

theorem isPending_mark1 (m : PMap) (p x : Nat) : isPending (mark1 m p x) = isPending (m x) := by
  unfold mark1; split
  · rename_i h; simp [isPending, h.1]
  · rfl

theorem areaBad_mark1 (m : PMap) (p : Nat) (ps : List Nat) : areaBad (mark1 m p) ps = areaBad m ps := by
  simp [areaBad, isBad_mark1]

theorem areaPending_mark1 (m : PMap) (p : Nat) (ps : List Nat) : areaPending (mark1 m p) ps = areaPending m ps := by
  simp [areaPending, isPending_mark1]

theorem classify_mark1 (m : PMap) (p : Nat) (ps : List Nat) : classify (mark1 m p) ps = classify m ps := by
  simp [classify, areaBad_mark1, areaPending_mark1]

theorem mark_cons (m : PMap) (p : Nat) (ps : List Nat) : mark (mark1 m p) ps = mark m (p :: ps) := by
  funext x
  unfold mark mark1
  by_cases h2 : x = p
  · subst h2
    by_cases h1 : m x = none <;> simp [h1]
  · by_cases h1 : m x = none <;> simp [h1, h2]

theorem classify_cons (m : PMap) (p : Nat) (ps : List Nat) :
    classify m (p :: ps) = join (classOne (m p)) (classify m ps) := by
  simp only [classify, areaBad, areaPending, List.any_cons, classOne, join]
  by_cases h1 : isBad (m p) = true <;> by_cases h2 : isPending (m p) = true <;>
    by_cases h3 : (ps.any fun p => isBad (m p)) = true <;>
    by_cases h4 : (ps.any fun p => isPending (m p)) = true <;> simp [h1, h2, h3, h4]

theorem join_assoc (a b c : St) (ha : a ≠ .validNotLoop) : join (join a b) c = join a (join b c) := by
  cases a <;> cases b <;> cases c <;> simp_all [join]

theorem foldl_areaStep (ps : List Nat) : ∀ (m : PMap) (s : St), s ≠ .validNotLoop →
    ps.foldl areaStep (m, s) = (mark m ps, join s (classify m ps)) := by
  induction ps with
  | nil =>
    intro m s hs
    have : mark m [] = m := by funext x; simp [mark]
    cases s <;> simp_all [classify, areaBad, areaPending, join]
  | cons p rest ih =>
    intro m s hs
    rw [List.foldl_cons, areaStep_eq m s p hs, ih _ _ (join_ne_notLoop _ _), mark_cons, classify_mark1,
      classify_cons, join_assoc _ _ _ hs]

theorem classify_ne_notLoop (m : PMap) (ps : List Nat) : classify m ps ≠ .validNotLoop := by
  unfold classify
  split
  · simp
  · split <;> simp

theorem join_valid (c : St) (hc : c ≠ .validNotLoop) : join .valid c = c := by
  cases c <;> simp_all [join]

theorem validateArea_eq (m : PMap) (ps : List Nat) : validateArea m ps = (mark m ps, classify m ps) := by
  unfold validateArea
  rw [foldl_areaStep ps m .valid (by simp), join_valid _ (classify_ne_notLoop m ps)]

/-! ## marking never changes a classification -/

theorem isBad_mark (m : PMap) (qs : List Nat) (x : Nat) : isBad (mark m qs x) = isBad (m x) := by
  unfold mark; split
  · rename_i h; simp [isBad, h.1]
  · rfl

theorem isPending_mark (m : PMap) (qs : List Nat) (x : Nat) : isPending (mark m qs x) = isPending (m x) := by
  unfold mark; split
  · rename_i h; simp [isPending, h.1]
  · rfl

theorem classify_mark (m : PMap) (qs ps : List Nat) : classify (mark m qs) ps = classify m ps := by
  simp [classify, areaBad, areaPending, isBad_mark, isPending_mark]

theorem any_congr' {f g : Nat → Bool} : ∀ (ps : List Nat), (∀ x ∈ ps, f x = g x) → ps.any f = ps.any g := by
  intro ps
  induction ps with
  | nil => intro _; rfl
  | cons a t ih =>
    intro h
    simp only [List.any_cons]
    rw [h a (by simp), ih (fun x hx => h x (by simp [hx]))]

/-- two maps that agree on badness and pendingness classify alike -/
theorem classify_congr (m m' : PMap) (ps : List Nat)
    (hb : ∀ x ∈ ps, isBad (m' x) = isBad (m x)) (hp : ∀ x ∈ ps, isPending (m' x) = isPending (m x)) :
    classify m' ps = classify m ps := by
  have e1 : areaBad m' ps = areaBad m ps := any_congr' ps hb
  have e2 : areaPending m' ps = areaPending m ps := any_congr' ps hp
  simp [classify, e1, e2]

/-! ## closed form of `validateQueue` -/

def markAll (m : PMap) : List (Nat × List Nat) → PMap
  | [] => m
  | (_, ps) :: rest => markAll (mark m ps) rest

theorem isBad_markAll (q : List (Nat × List Nat)) : ∀ (m : PMap) (x : Nat), isBad (markAll m q x) = isBad (m x) := by
  induction q with
  | nil => intro m x; rfl
  | cons a t ih => intro m x; obtain ⟨a1, ps⟩ := a; simp [markAll, ih, isBad_mark]

theorem isPending_markAll (q : List (Nat × List Nat)) : ∀ (m : PMap) (x : Nat), isPending (markAll m q x) = isPending (m x) := by
  induction q with
  | nil => intro m x; rfl
  | cons a t ih => intro m x; obtain ⟨a1, ps⟩ := a; simp [markAll, ih, isPending_mark]

theorem classify_markAll (m : PMap) (q : List (Nat × List Nat)) (ps : List Nat) :
    classify (markAll m q) ps = classify m ps :=
  classify_congr _ _ _ (fun x _ => isBad_markAll q m x) (fun x _ => isPending_markAll q m x)

def toOut (a : Nat × List Nat) : Out := Out.area a.1 a.2

theorem validateQueue_eq (q : List (Nat × List Nat)) : ∀ (m : PMap),
    validateQueue m q =
      (markAll m q, q.filter (fun a => classify m a.2 = .unknown),
        (q.filter (fun a => classify m a.2 = .valid)).map toOut) := by
  induction q with
  | nil => intro m; rfl
  | cons a t ih =>
    intro m
    obtain ⟨a1, ps⟩ := a
    simp only [validateQueue, validateArea_eq, ih]
    have hc : ∀ b : Nat × List Nat, classify (mark m ps) b.2 = classify m b.2 := fun b => classify_mark m ps b.2
    simp only [hc, markAll]
    cases h : classify m ps <;> simp [h, toOut]


/-! ## functions of an arrival list distribute over append -/

theorem pathIds_append (l1 l2 : List Arrival) : pathIds (l1 ++ l2) = pathIds l1 ++ pathIds l2 := by
  induction l1 with
  | nil => rfl
  | cons a t ih => cases a <;> simp [pathIds, ih]

theorem areasOf_append (l1 l2 : List Arrival) : areasOf (l1 ++ l2) = areasOf l1 ++ areasOf l2 := by
  induction l1 with
  | nil => rfl
  | cons a t ih => cases a <;> simp [areasOf, ih]

theorem emittedPaths_append (l1 l2 : List Arrival) : emittedPaths (l1 ++ l2) = emittedPaths l1 ++ emittedPaths l2 := by
  induction l1 with
  | nil => rfl
  | cons a t ih =>
    cases a with
    | path id v => by_cases h : v = .invalid <;> simp [emittedPaths, h, ih]
    | area a ps => simp [emittedPaths, ih]

theorem verdict_append (l1 l2 : List Arrival) (k : Nat) :
    verdict (l1 ++ l2) k = match verdict l1 k with | some v => some v | none => verdict l2 k := by
  induction l1 with
  | nil => rfl
  | cons a t ih =>
    cases a with
    | path id v => by_cases h : id = k <;> simp [verdict, h, ih]
    | area a ps => simp [verdict, ih]

theorem verdict_none_of_not_mem (l : List Arrival) (k : Nat) (h : k ∉ pathIds l) : verdict l k = none := by
  induction l with
  | nil => rfl
  | cons a t ih =>
    cases a with
    | path id v =>
      simp only [pathIds, List.mem_cons, not_or] at h
      have : ¬ id = k := fun e => h.1 e.symm
      simp [verdict, this, ih h.2]
    | area a ps => simpa [verdict] using ih (by simpa [pathIds] using h)

theorem verdict_snoc_area (pre : List Arrival) (a : Nat) (ps : List Nat) :
    verdict (pre ++ [Arrival.area a ps]) = verdict pre := by
  funext k
  rw [verdict_append]
  cases verdict pre k <;> simp [verdict]

theorem verdict_snoc_path (pre : List Arrival) (id : Nat) (pv : PV) (h : verdict pre id = none) (k : Nat) :
    verdict (pre ++ [Arrival.path id pv]) k = if k = id then some pv else verdict pre k := by
  rw [verdict_append]
  by_cases hk : k = id
  · subst hk; simp [h, verdict]
  · have : ¬ id = k := fun e => hk e.symm
    cases verdict pre k <;> simp [verdict, hk, this]

/-! ## the invariant of the validator fold -/

/-- the verdicts seen so far, as a path-state map -/
def vmap (f : Nat → Option PV) : PMap := fun p => (f p).map PV.toSt

/-- classification of an area against the verdicts of the arrivals `pre` -/
def cls (pre : List Arrival) (ps : List Nat) : St := classify (vmap (verdict pre)) ps

/-- forget the `unknown` marks -/
def known : Option St → Option St
  | some .unknown => none
  | x => x

structure Inv (pre : List Arrival) (v : V) (out : List Out) : Prop where
  verdicts : ∀ p, known (v.paths p) = vmap (verdict pre) p
  marked : ∀ a ∈ areasOf pre, ∀ p ∈ a.2, v.paths p ≠ none
  queue : v.queue = (areasOf pre).filter (fun a => cls pre a.2 = .unknown)
  emitted : out.Perm (emittedPaths pre ++ ((areasOf pre).filter (fun a => cls pre a.2 = .valid)).map toOut)

theorem toSt_ne_unknown (pv : PV) : pv.toSt ≠ .unknown := by cases pv <;> simp [PV.toSt]

theorem isBad_known (o : Option St) : isBad (known o) = isBad o := by
  cases o with
  | none => rfl
  | some s => cases s <;> rfl

theorem isPending_known (o : Option St) : isPending (known o) = isPending o := by
  cases o with
  | none => rfl
  | some s => cases s <;> rfl

/-- a map whose known part is the verdicts classifies like the verdicts -/
theorem classify_of_known (m : PMap) (pre : List Arrival) (h : ∀ p, known (m p) = vmap (verdict pre) p)
    (ps : List Nat) : classify m ps = cls pre ps := by
  unfold cls
  apply Eq.symm
  apply classify_congr
  · intro x _; rw [← h x, isBad_known]
  · intro x _; rw [← h x, isPending_known]

theorem known_mark (m : PMap) (ps : List Nat) (x : Nat) : known (mark m ps x) = known (m x) := by
  unfold mark; split
  · rename_i h; simp [known, h.1]
  · rfl

theorem known_markAll (q : List (Nat × List Nat)) : ∀ (m : PMap) (x : Nat), known (markAll m q x) = known (m x) := by
  induction q with
  | nil => intro m x; rfl
  | cons a t ih => intro m x; obtain ⟨a1, ps⟩ := a; simp [markAll, ih, known_mark]

theorem mark_ne_none (m : PMap) (ps : List Nat) (x : Nat) (h : m x ≠ none) : mark m ps x ≠ none := by
  unfold mark; split
  · simp
  · exact h

theorem markAll_ne_none (q : List (Nat × List Nat)) : ∀ (m : PMap) (x : Nat), m x ≠ none → markAll m q x ≠ none := by
  induction q with
  | nil => intro m x h; exact h
  | cons a t ih => intro m x h; obtain ⟨a1, ps⟩ := a; exact ih _ _ (mark_ne_none m ps x h)

theorem mark_mem_ne_none (m : PMap) (ps : List Nat) (x : Nat) (h : x ∈ ps) : mark m ps x ≠ none := by
  unfold mark
  by_cases hm : m x = none
  · simp [hm, h]
  · simp [hm]

/-! ### an area arrives -/

theorem cls_snoc_area (pre : List Arrival) (a : Nat) (ps qs : List Nat) :
    cls (pre ++ [Arrival.area a ps]) qs = cls pre qs := by
  unfold cls; rw [verdict_snoc_area]

theorem inv_area (pre : List Arrival) (v : V) (out : List Out) (a : Nat) (ps : List Nat) (h : Inv pre v out) :
    Inv (pre ++ [Arrival.area a ps]) (step v (.area a ps)).1 (out ++ (step v (.area a ps)).2) := by
  have hcl : classify v.paths ps = cls pre ps := classify_of_known v.paths pre h.verdicts ps
  have hA : areasOf (pre ++ [Arrival.area a ps]) = areasOf pre ++ [(a, ps)] := by
    rw [areasOf_append]; rfl
  have hE : emittedPaths (pre ++ [Arrival.area a ps]) = emittedPaths pre := by
    rw [emittedPaths_append]; simp [emittedPaths]
  have hc : ∀ qs, cls (pre ++ [Arrival.area a ps]) qs = cls pre qs := cls_snoc_area pre a ps
  have key : ∀ (v' : V) (o' : List Out), v'.paths = mark v.paths ps →
      v'.queue = (if cls pre ps = .unknown then v.queue ++ [(a, ps)] else v.queue) →
      o' = (if cls pre ps = .valid then [Out.area a ps] else []) →
      Inv (pre ++ [Arrival.area a ps]) v' (out ++ o') := by
    intro v' o' hp hq ho
    constructor
    · intro p
      rw [hp, known_mark, verdict_snoc_area]
      exact h.verdicts p
    · intro b hb p hpm
      rw [hp]
      rw [hA, List.mem_append] at hb
      cases hb with
      | inl hb => exact mark_ne_none _ _ _ (h.marked b hb p hpm)
      | inr hb =>
        simp only [List.mem_singleton] at hb
        subst hb
        exact mark_mem_ne_none _ _ _ hpm
    · rw [hq, hA, List.filter_append]
      simp only [hc]
      by_cases hs : cls pre ps = .unknown
      · simp [hs, h.queue]
      · simp [hs, h.queue]
    · rw [ho, hA, hE, List.filter_append, List.map_append]
      simp only [hc]
      by_cases hs : cls pre ps = .valid
      · simp only [hs, ite_true, List.filter_cons, List.filter_nil, decide_true, List.map_cons, List.map_nil, toOut]
        rw [← List.append_assoc]
        exact List.Perm.append_right _ h.emitted
      · simp only [hs, ite_false, List.filter_cons, List.filter_nil, decide_false, Bool.false_eq_true,
          List.map_nil, List.append_nil]
        exact h.emitted
  simp only [step, validateArea_eq, hcl]
  cases hs : cls pre ps <;> exact key _ _ rfl (by simp [hs]) (by simp [hs])

/-! ### a path arrives -/

theorem filter_split {α} (l : List α) (p q r : α → Bool) (h1 : ∀ x, p x = true → r x = true)
    (h2 : ∀ x, r x = true → p x = true ∨ q x = true) (h3 : ∀ x, p x = true → q x = false) :
    (l.filter r).Perm (l.filter p ++ (l.filter q).filter r) := by
  induction l with
  | nil => simp
  | cons x t ih =>
    by_cases hr : r x = true
    · by_cases hp : p x = true
      · have hq := h3 x hp
        simp only [List.filter_cons, hr, hp, hq, ite_true, Bool.false_eq_true, ite_false, List.cons_append]
        exact List.Perm.cons x ih
      · have hq : q x = true := (h2 x hr).resolve_left hp
        have hp' : p x = false := by simpa using hp
        simp only [List.filter_cons, hr, hp', hq, ite_true, Bool.false_eq_true, ite_false]
        exact (List.Perm.cons x ih).trans List.perm_middle.symm
    · have hr' : r x = false := by simpa using hr
      have hp' : p x = false := by
        cases hpx : p x with
        | false => rfl
        | true => exact absurd (h1 x hpx) hr
      cases hq : q x
      · simp only [List.filter_cons, hr', hp', hq, Bool.false_eq_true, ite_false]
        exact ih
      · simp only [List.filter_cons, hr', hp', hq, Bool.false_eq_true, ite_false, ite_true]
        exact ih

theorem vmap_snoc_path (pre : List Arrival) (id : Nat) (pv : PV) (hnew : verdict pre id = none) (x : Nat) :
    vmap (verdict (pre ++ [Arrival.path id pv])) x = if x = id then some pv.toSt else vmap (verdict pre) x := by
  unfold vmap
  rw [verdict_snoc_path pre id pv hnew]
  by_cases hx : x = id <;> simp [hx]

/-- classification is unchanged for areas that do not mention the new path -/
theorem cls_snoc_path_not_mem (pre : List Arrival) (id : Nat) (pv : PV) (hnew : verdict pre id = none)
    (ps : List Nat) (h : id ∉ ps) : cls (pre ++ [Arrival.path id pv]) ps = cls pre ps := by
  unfold cls
  apply classify_congr <;>
  · intro x hx
    have : x ≠ id := fun e => h (e ▸ hx)
    rw [vmap_snoc_path pre id pv hnew]
    simp [this]

theorem isBad_mono (pre : List Arrival) (id : Nat) (pv : PV) (hnew : verdict pre id = none) (x : Nat)
    (h : isBad (vmap (verdict pre) x) = true) : isBad (vmap (verdict (pre ++ [Arrival.path id pv])) x) = true := by
  rw [vmap_snoc_path pre id pv hnew]
  by_cases hx : x = id
  · subst hx; simp [vmap, hnew, isBad] at h
  · simpa [hx] using h

theorem isPending_anti (pre : List Arrival) (id : Nat) (pv : PV) (hnew : verdict pre id = none) (x : Nat)
    (h : isPending (vmap (verdict (pre ++ [Arrival.path id pv])) x) = true) : isPending (vmap (verdict pre) x) = true := by
  rw [vmap_snoc_path pre id pv hnew] at h
  by_cases hx : x = id
  · subst hx; simp [vmap, hnew, isPending]
  · simpa [hx] using h

theorem any_mono {f g : Nat → Bool} (ps : List Nat) (h : ∀ x, f x = true → g x = true) (hf : ps.any f = true) :
    ps.any g = true := by
  rw [List.any_eq_true] at *
  obtain ⟨x, hx, hfx⟩ := hf
  exact ⟨x, hx, h x hfx⟩

theorem cls_cases (pre : List Arrival) (ps : List Nat) :
    (cls pre ps = .invalid ↔ areaBad (vmap (verdict pre)) ps = true) ∧
    (cls pre ps = .unknown ↔ areaBad (vmap (verdict pre)) ps = false ∧ areaPending (vmap (verdict pre)) ps = true) ∧
    (cls pre ps = .valid ↔ areaBad (vmap (verdict pre)) ps = false ∧ areaPending (vmap (verdict pre)) ps = false) := by
  unfold cls classify
  cases areaBad (vmap (verdict pre)) ps <;> cases areaPending (vmap (verdict pre)) ps <;> simp

/-- an area that was valid stays valid; one that becomes unknown or valid was unknown or valid -/
theorem cls_snoc_path_mono (pre : List Arrival) (id : Nat) (pv : PV) (hnew : verdict pre id = none) (ps : List Nat) :
    (cls pre ps = .valid → cls (pre ++ [Arrival.path id pv]) ps = .valid) ∧
    (cls (pre ++ [Arrival.path id pv]) ps = .unknown → cls pre ps = .unknown) ∧
    (cls (pre ++ [Arrival.path id pv]) ps = .valid → cls pre ps = .valid ∨ cls pre ps = .unknown) := by
  have bad_mono : areaBad (vmap (verdict pre)) ps = true →
      areaBad (vmap (verdict (pre ++ [Arrival.path id pv]))) ps = true :=
    any_mono ps (fun x => isBad_mono pre id pv hnew x)
  have pend_anti : areaPending (vmap (verdict (pre ++ [Arrival.path id pv]))) ps = true →
      areaPending (vmap (verdict pre)) ps = true :=
    any_mono ps (fun x => isPending_anti pre id pv hnew x)
  obtain ⟨i1, u1, v1⟩ := cls_cases pre ps
  obtain ⟨i2, u2, v2⟩ := cls_cases (pre ++ [Arrival.path id pv]) ps
  refine ⟨?_, ?_, ?_⟩
  · intro h
    obtain ⟨hb, hp⟩ := v1.mp h
    -- not pending before: every verdict is there, and none of the ids is the new one
    have hnot : id ∉ ps := by
      intro hmem
      have : areaPending (vmap (verdict pre)) ps = true := by
        unfold areaPending
        rw [List.any_eq_true]
        exact ⟨id, hmem, by simp [vmap, hnew, isPending]⟩
      simp [this] at hp
    rw [cls_snoc_path_not_mem pre id pv hnew ps hnot]; exact h
  · intro h
    obtain ⟨hb, hp⟩ := u2.mp h
    apply u1.mpr
    constructor
    · cases hb1 : areaBad (vmap (verdict pre)) ps with
      | false => rfl
      | true => rw [bad_mono hb1] at hb; exact absurd hb (by simp)
    · exact pend_anti hp
  · intro h
    obtain ⟨hb, hp⟩ := v2.mp h
    have hb1 : areaBad (vmap (verdict pre)) ps = false := by
      cases hb1 : areaBad (vmap (verdict pre)) ps with
      | false => rfl
      | true => rw [bad_mono hb1] at hb; exact absurd hb (by simp)
    cases hp1 : areaPending (vmap (verdict pre)) ps with
    | false => exact Or.inl (v1.mpr ⟨hb1, hp1⟩)
    | true => exact Or.inr (u1.mpr ⟨hb1, hp1⟩)

theorem emittedPaths_snoc_path (pre : List Arrival) (id : Nat) (pv : PV) :
    emittedPaths (pre ++ [Arrival.path id pv]) = emittedPaths pre ++ (if pv = .invalid then [] else [Out.path id]) := by
  rw [emittedPaths_append]
  by_cases h : pv = .invalid <;> simp [emittedPaths, h]

theorem areasOf_snoc_path (pre : List Arrival) (id : Nat) (pv : PV) :
    areasOf (pre ++ [Arrival.path id pv]) = areasOf pre := by
  rw [areasOf_append]; simp [areasOf]

theorem known_setP (m : PMap) (id : Nat) (pv : PV) (x : Nat) :
    known (setP m id pv.toSt x) = if x = id then some pv.toSt else known (m x) := by
  unfold setP
  by_cases hx : x = id
  · simp only [hx, ite_true]
    cases pv <;> rfl
  · simp [hx]

theorem inv_path (pre : List Arrival) (v : V) (out : List Out) (id : Nat) (pv : PV) (h : Inv pre v out)
    (hnew : verdict pre id = none) :
    Inv (pre ++ [Arrival.path id pv]) (step v (.path id pv)).1 (out ++ (step v (.path id pv)).2) := by
  have hA : areasOf (pre ++ [Arrival.path id pv]) = areasOf pre := areasOf_snoc_path pre id pv
  have hE := emittedPaths_snoc_path pre id pv
  -- the map right after the store
  have hk1 : ∀ x, known (setP v.paths id pv.toSt x) = vmap (verdict (pre ++ [Arrival.path id pv])) x := by
    intro x
    rw [known_setP, vmap_snoc_path pre id pv hnew, h.verdicts x]
  have hcl1 : ∀ ps, classify (setP v.paths id pv.toSt) ps = cls (pre ++ [Arrival.path id pv]) ps :=
    classify_of_known _ (pre ++ [Arrival.path id pv]) hk1
  have hm1 : ∀ x, v.paths x ≠ none → setP v.paths id pv.toSt x ≠ none := by
    intro x hx
    unfold setP
    by_cases hxi : x = id <;> simp [hxi, hx]
  have hmono := cls_snoc_path_mono pre id pv hnew
  by_cases hknown : (v.paths id).isSome = true
  · -- an area mentioned this path before: the queue is re-validated
    simp only [step, hknown, ite_true, validateQueue_eq, hcl1]
    constructor
    · intro p; rw [known_markAll]; exact hk1 p
    · intro b hb p hp
      rw [hA] at hb
      exact markAll_ne_none _ _ _ (hm1 p (h.marked b hb p hp))
    · show List.filter _ v.queue = List.filter _ (areasOf (pre ++ [Arrival.path id pv]))
      rw [hA, h.queue, List.filter_filter]
      apply List.filter_congr
      intro b _
      have hm := (hmono b.2).2.1
      by_cases h1 : cls (pre ++ [Arrival.path id pv]) b.2 = .unknown
      · have h2 : cls pre b.2 = .unknown := hm h1
        simp [h1, h2]
      · simp [h1]
    · show (out ++ ((if pv = PV.invalid then [] else [Out.path id]) ++ List.map toOut (List.filter _ v.queue))).Perm _
      rw [hA, hE, h.queue]
      have hsplit := filter_split (areasOf pre) (fun a => decide (cls pre a.2 = .valid))
        (fun a => decide (cls pre a.2 = .unknown)) (fun a => decide (cls (pre ++ [Arrival.path id pv]) a.2 = .valid))
        (by intro b hb; simpa using (hmono b.2).1 (by simpa using hb))
        (by intro b hb; simpa using (hmono b.2).2.2 (by simpa using hb))
        (by intro b hb; have : cls pre b.2 = .valid := by simpa using hb
            simp [this])
      have hmap := (hsplit.map toOut)
      rw [List.map_append] at hmap
      -- out ++ (o0 ++ X) ~ (E ++ o0) ++ F'
      refine List.Perm.trans ?_ (List.Perm.append_left _ hmap.symm)
      rw [← List.append_assoc, ← List.append_assoc]
      apply List.Perm.append_right
      -- out ++ o0 ~ (E ++ o0) ++ F
      refine (List.Perm.append_right _ h.emitted).trans ?_
      rw [List.append_assoc, List.append_assoc]
      exact List.Perm.append_left _ List.perm_append_comm
  · -- nobody mentioned this path yet: no queued area can depend on it
    have hnone : v.paths id = none := by
      cases hv : v.paths id with
      | none => rfl
      | some s => simp [hv] at hknown
    have hnot : ∀ b ∈ areasOf pre, id ∉ b.2 := fun b hb hmem => h.marked b hb id hmem hnone
    have hsame : ∀ b ∈ areasOf pre, cls (pre ++ [Arrival.path id pv]) b.2 = cls pre b.2 :=
      fun b hb => cls_snoc_path_not_mem pre id pv hnew b.2 (hnot b hb)
    have hk : (v.paths id).isSome = false := by simpa using hknown
    simp only [step, hk, Bool.false_eq_true, ite_false]
    constructor
    · exact hk1
    · intro b hb p hp
      rw [hA] at hb
      exact hm1 p (h.marked b hb p hp)
    · show v.queue = List.filter _ (areasOf (pre ++ [Arrival.path id pv]))
      rw [hA, h.queue]
      apply List.filter_congr
      intro b hb
      rw [hsame b hb]
    · show (out ++ (if pv = PV.invalid then [] else [Out.path id])).Perm _
      rw [hA, hE]
      have hf : (areasOf pre).filter (fun a => decide (cls (pre ++ [Arrival.path id pv]) a.2 = .valid)) =
          (areasOf pre).filter (fun a => decide (cls pre a.2 = .valid)) := by
        apply List.filter_congr
        intro b hb
        rw [hsame b hb]
      rw [hf]
      refine (List.Perm.append_right _ h.emitted).trans ?_
      rw [List.append_assoc, List.append_assoc]
      exact List.Perm.append_left _ List.perm_append_comm

/-! ### the whole fold -/

theorem inv_init : Inv [] V.init [] := by
  constructor
  · intro p; rfl
  · intro a ha; simp [areasOf] at ha
  · rfl
  · simp [emittedPaths, areasOf]

theorem runFrom_inv (rest : List Arrival) : ∀ (pre : List Arrival) (v : V) (out : List Out),
    Inv pre v out → (pathIds (pre ++ rest)).Nodup →
    Inv (pre ++ rest) (runFrom v rest).1 (out ++ (runFrom v rest).2) := by
  induction rest with
  | nil => intro pre v out h _; simpa [runFrom] using h
  | cons a rest ih =>
    intro pre v out h hnd
    have hstep : Inv (pre ++ [a]) (step v a).1 (out ++ (step v a).2) := by
      cases a with
      | area a0 ps => exact inv_area pre v out a0 ps h
      | path id pv =>
        apply inv_path pre v out id pv h
        apply verdict_none_of_not_mem
        rw [pathIds_append] at hnd
        have := (List.nodup_append.mp hnd).2.2
        intro hmem
        exact this id hmem id (by simp [pathIds]) rfl
    have hnd' : (pathIds ((pre ++ [a]) ++ rest)).Nodup := by simpa using hnd
    have := ih (pre ++ [a]) (step v a).1 (out ++ (step v a).2) hstep hnd'
    simpa [runFrom, List.append_assoc] using this

/-- classification against all verdicts: valid exactly when every path is present and valid -/
theorem cls_valid_iff (arr : List Arrival) (ps : List Nat) :
    (cls arr ps = .valid) ↔ allValid (verdict arr) ps = true := by
  rw [(cls_cases arr ps).2.2]
  unfold areaBad areaPending allValid
  induction ps with
  | nil => simp
  | cons p t ih =>
    simp only [List.any_cons, List.all_cons, Bool.or_eq_false_iff, Bool.and_eq_true]
    rw [← ih]
    cases hv : verdict arr p with
    | none => simp [vmap, hv, isBad, isPending]
    | some pv => cases pv <;> simp [vmap, hv, isBad, isPending, PV.toSt]

theorem run_perm_spec (arr : List Arrival) (hnd : (pathIds arr).Nodup) : (run arr).Perm (spec arr) := by
  have h := runFrom_inv arr [] V.init [] inv_init (by simpa using hnd)
  have he := h.emitted
  simp only [List.nil_append] at he
  unfold run spec
  have hf : (areasOf arr).filter (fun a => decide (cls arr a.2 = .valid)) =
      (areasOf arr).filter (fun a => allValid (verdict arr) a.2) := by
    apply List.filter_congr
    intro b _
    have := cls_valid_iff arr b.2
    cases h1 : allValid (verdict arr) b.2 <;> simp_all
  rw [hf] at he
  exact he

end B6.Lemmas.ValidatorPerm
