import B6.Lemmas.MutableIndex
/-!
The concrete root world of the drivers (`rootView`: a `BasicMutableWorld` filled with features) meets
the standing assumptions of the C12–C14 theorems; and the bridge from "search is exact with respect to
the world's own lookups" to the per-feature map spec.
-/
namespace B6.Model.Mutable

theorem rootFeats_fold (fs : List Feature) :
    ∀ (acc : List (Id × Feature)), (∀ id f, AMap.get acc id = some f → f.id = id) →
      ∀ id f, AMap.get (fs.foldl (fun m f => AMap.set m f.id f) acc) id = some f →
        f.id = id ∧ (f ∈ fs ∨ AMap.get acc id = some f) := by
  induction fs with
  | nil => intro acc hacc id f h; exact ⟨hacc id f h, Or.inr h⟩
  | cons g rest ih =>
    intro acc hacc id f h
    simp only [List.foldl_cons] at h
    have hacc' : ∀ id f, AMap.get (AMap.set acc g.id g) id = some f → f.id = id := by
      intro id f h
      rw [AMap.get_set] at h
      by_cases hid : id = g.id
      · simp [hid] at h; subst h; exact hid.symm
      · simp [hid] at h; exact hacc id f h
    obtain ⟨h1, h2⟩ := ih _ hacc' id f h
    refine ⟨h1, ?_⟩
    rcases h2 with h2 | h2
    · exact Or.inl (List.mem_cons_of_mem _ h2)
    · rw [AMap.get_set] at h2
      by_cases hid : id = g.id
      · simp [hid] at h2; subst h2; exact Or.inl List.mem_cons_self
      · simp [hid] at h2; exact Or.inr h2

theorem rootFeats_get {fs : List Feature} {id : Id} {f : Feature} (h : AMap.get (rootFeats fs) id = some f) :
    f.id = id ∧ f ∈ fs := by
  have := rootFeats_fold fs [] (by intro id f h; simp at h) id f h
  refine ⟨this.1, ?_⟩
  rcases this.2 with h | h
  · exact h
  · simp at h

theorem rootView_idsOK (fs : List Feature) : (rootView fs).IdsOK := by
  intro id fv h
  simp only [rootView, rootFind] at h
  cases hg : AMap.get (rootFeats fs) id with
  | none => simp [hg] at h
  | some f => simp [hg] at h; subst h; exact (rootFeats_get hg).1

theorem rootView_tagsOK (fs : List Feature) (h : ∀ f ∈ fs, TagsOK f.tags) : (rootView fs).TagsOK := by
  intro id fv hf
  simp only [rootView, rootFind] at hf
  cases hg : AMap.get (rootFeats fs) id with
  | none => simp [hg] at hf
  | some f => simp [hg] at hf; subst hf; exact h f (rootFeats_get hg).2

theorem rootView_idsExact (fs : List Feature) : (rootView fs).IdsExact := by
  intro id
  simp only [rootView, rootFind, AMap.mem_keys_iff, Option.isSome_map]

theorem rootSearch_fold (feats : List (Id × Feature)) (t : Token) (ks : List Id) :
    ∀ (acc : List Id), Sorted acc →
      Sorted (ks.foldl (rootSearchStep feats t) acc) ∧
      ∀ y, (y ∈ ks.foldl (rootSearchStep feats t) acc ↔
        y ∈ acc ∨ (y ∈ ks ∧ ∃ f, AMap.get feats y = some f ∧ t ∈ tokensFor f)) := by
  induction ks with
  | nil => intro acc h; exact ⟨h, fun y => by simp⟩
  | cons k rest ih =>
    intro acc h
    simp only [List.foldl_cons]
    cases hg : AMap.get feats k with
    | none =>
      have hstep : rootSearchStep feats t acc k = acc := by simp [rootSearchStep, hg]
      rw [hstep]
      refine ⟨(ih acc h).1, fun y => ?_⟩
      rw [(ih acc h).2]
      constructor
      · rintro (h1 | ⟨h1, h2⟩)
        · exact Or.inl h1
        · exact Or.inr ⟨List.mem_cons_of_mem _ h1, h2⟩
      · rintro (h1 | ⟨h1, f, h2, h3⟩)
        · exact Or.inl h1
        · rcases List.mem_cons.1 h1 with rfl | h1
          · rw [hg] at h2; cases h2
          · exact Or.inr ⟨h1, f, h2, h3⟩
    | some f =>
      by_cases hc : (tokensFor f).contains t = true
      · have hstep : rootSearchStep feats t acc k = insertSorted k acc := by
          simp only [rootSearchStep, hg, hc, ↓reduceIte]
        rw [hstep]
        have := ih (insertSorted k acc) (sorted_insertSorted _ _ h)
        refine ⟨this.1, fun y => ?_⟩
        rw [this.2, mem_insertSorted]
        constructor
        · rintro ((h1 | h1) | ⟨h1, h2⟩)
          · subst h1; exact Or.inr ⟨List.mem_cons_self, f, hg, by simpa using hc⟩
          · exact Or.inl h1
          · exact Or.inr ⟨List.mem_cons_of_mem _ h1, h2⟩
        · rintro (h1 | ⟨h1, h2⟩)
          · exact Or.inl (Or.inr h1)
          · rcases List.mem_cons.1 h1 with rfl | h1
            · exact Or.inl (Or.inl rfl)
            · exact Or.inr ⟨h1, h2⟩
      · have hstep : rootSearchStep feats t acc k = acc := by
          simp only [rootSearchStep, hg, hc, Bool.false_eq_true, ↓reduceIte]
        rw [hstep]
        refine ⟨(ih acc h).1, fun y => ?_⟩
        rw [(ih acc h).2]
        constructor
        · rintro (h1 | ⟨h1, h2⟩)
          · exact Or.inl h1
          · exact Or.inr ⟨List.mem_cons_of_mem _ h1, h2⟩
        · rintro (h1 | ⟨h1, g, h2, h3⟩)
          · exact Or.inl h1
          · rcases List.mem_cons.1 h1 with rfl | h1
            · rw [hg] at h2; cases h2
              exact absurd (by simpa using h3) hc
            · exact Or.inr ⟨h1, g, h2, h3⟩

theorem rootView_searchOK (fs : List Feature) : (rootView fs).SearchOK := by
  intro t
  have := rootSearch_fold (rootFeats fs) t (AMap.keys (rootFeats fs)) [] (by simp [Sorted])
  refine ⟨this.1, fun id => ?_⟩
  show id ∈ (AMap.keys (rootFeats fs)).foldl (rootSearchStep (rootFeats fs) t) [] ↔ _
  rw [this.2]
  simp only [List.not_mem_nil, false_or, rootView, rootFind]
  constructor
  · rintro ⟨_, f, hf, ht⟩
    exact ⟨_, by rw [hf]; rfl, ht⟩
  · rintro ⟨fv, hfv, ht⟩
    cases hg : AMap.get (rootFeats fs) id with
    | none => simp [hg] at hfv
    | some f =>
      simp [hg] at hfv; subst hfv
      exact ⟨by rw [AMap.mem_keys_iff, hg]; rfl, f, rfl, ht⟩

end B6.Model.Mutable

/-! ## the per-feature map: key-distinct tag maps, and search / enumeration -/
namespace B6.Spec.World
open B6.Model.Mutable

/-- every feature of the map has one value per key -/
def KeysNodup (w : World) : Prop := ∀ id m, find w id = some m → (m.map (·.1)).Nodup

theorem nodup_keys_set {m : TagMap} {k : Key} {v : Val} (h : (m.map (·.1)).Nodup) :
    ((AMap.set m k v).map (·.1)).Nodup := by
  unfold AMap.set
  simp only [List.map_cons, List.nodup_cons]
  refine ⟨fun hmem => ?_, List.Nodup.sublist (keys_erase_sublist m k) h⟩
  have : k ∈ AMap.keys (AMap.erase m k) := hmem
  rw [AMap.mem_keys_iff, AMap.get_erase] at this
  simp at this

theorem keysNodup_addFeature {w : World} {id : Id} {tags : List Tag} (hw : KeysNodup w) (ht : (tags.map (·.1)).Nodup) :
    KeysNodup (addFeature w id tags) := by
  intro id' m hm
  simp only [find, addFeature, AMap.get_set] at hm
  by_cases h : id' = id
  · simp [h] at hm; subst hm; exact ht
  · simp [h] at hm; exact hw id' m hm

theorem keysNodup_addTag {w : World} {id : Id} {t : Tag} (hw : KeysNodup w) : KeysNodup (addTag w id t) := by
  unfold addTag
  cases hf : find w id with
  | none => exact hw
  | some m0 =>
    intro id' m hm
    simp only [find, AMap.get_set] at hm
    by_cases h : id' = id
    · simp [h] at hm; subst hm; exact nodup_keys_set (hw id m0 hf)
    · simp [h] at hm; exact hw id' m hm

theorem keysNodup_removeTag {w : World} {id : Id} {k : Key} (hw : KeysNodup w) : KeysNodup (removeTag w id k) := by
  unfold removeTag
  cases hf : find w id with
  | none => exact hw
  | some m0 =>
    intro id' m hm
    simp only [find, AMap.get_set] at hm
    by_cases h : id' = id
    · simp [h] at hm; subst hm
      exact List.Nodup.sublist (keys_erase_sublist m0 k) (hw id m0 hf)
    · simp [h] at hm; exact hw id' m hm

theorem keysNodup_applyChange {w : World} {c : Change} (hw : KeysNodup w) (hc : changeOK c) :
    KeysNodup (applyChange w c) := by
  cases c with
  | addFeatures fs =>
    simp only [applyChange]
    simp only [changeOK] at hc
    induction fs generalizing w with
    | nil => exact hw
    | cons f rest ih =>
      simp only [List.foldl_cons]
      exact ih (keysNodup_addFeature hw (hc f List.mem_cons_self).1) (fun g hg => hc g (List.mem_cons_of_mem _ hg))
  | addTags ts =>
    simp only [applyChange]
    clear hc
    induction ts generalizing w with
    | nil => exact hw
    | cons e rest ih => simp only [List.foldl_cons]; exact ih (keysNodup_addTag hw)
  | removeTags ts =>
    simp only [applyChange]
    clear hc
    induction ts generalizing w with
    | nil => exact hw
    | cons e rest ih => simp only [List.foldl_cons]; exact ih (keysNodup_removeTag hw)

theorem keysNodup_step {w : World} {op : Op} {r : Option Err} (hw : KeysNodup w) (hop : opOK op) :
    KeysNodup (step w op r) := by
  cases r with
  | some e => exact hw
  | none =>
    simp only [step]
    cases op with
    | addFeature f => exact keysNodup_addFeature hw hop.1
    | addTag id t => exact keysNodup_addTag hw
    | removeTag id k => exact keysNodup_removeTag hw
    | merged cs =>
      simp only [applyOp]
      simp only [opOK] at hop
      induction cs generalizing w with
      | nil => exact hw
      | cons c rest ih =>
        simp only [List.foldl_cons]
        exact ih (keysNodup_applyChange hw (hop c List.mem_cons_self)) (fun g hg => hop g (List.mem_cons_of_mem _ hg))

theorem keysNodup_run (ops : List Op) : ∀ (w : World) (rs : List (Option Err)), KeysNodup w →
    (∀ op ∈ ops, opOK op) → KeysNodup (run w ops rs) := by
  induction ops with
  | nil => intro w rs hw _; cases rs <;> exact hw
  | cons op rest ih =>
    intro w rs hw hok
    cases rs with
    | nil => exact hw
    | cons r rs' =>
      simp only [run]
      exact ih _ rs' (keysNodup_step hw (hok op List.mem_cons_self)) (fun g hg => hok g (List.mem_cons_of_mem _ hg))

theorem mem_iff_get {m : List Tag} (h : (m.map (·.1)).Nodup) (k : Key) (v : Val) :
    (k, v) ∈ m ↔ AMap.get m k = some v :=
  ⟨fun hm => get_eq_some_of_mem h hm, fun hg => AMap.get_some_mem hg⟩

theorem mem_matching (w : World) (t : Token) (id : Id) :
    id ∈ matching w t ↔ id ∈ ids w ∧ produces w id t = true := by
  unfold matching
  rw [mem_foldInsert]
  simp [List.mem_filter]

theorem sorted_matching (w : World) (t : Token) : Sorted (matching w t) :=
  sorted_foldInsert _ _ (by simp [Sorted])

end B6.Spec.World
