import B6.Model.RecordsRaw
import B6.Lemmas.RecordsFeatures
/-!
# Lemmas for `B6/Model/RecordsRaw.lean`: reused receivers of the two sum-like records, leaf decoders on
truncated buffers (kernel-only proofs, no Mathlib).
-/
namespace B6.Model.Records
open B6.Model.Varint

/-! ## reused receivers: ReferencesAndLatLngs -/

theorem rt_refLLsStepInto (p : BitVec 16) (s : MixedState) (x slot : RefLL) :
    RT (RefLLs.encStep p s x).1 (RefLLs.decStepInto p x.isRef slot s)
      ((if x.isRef then ⟨x.ref, slot.ll⟩ else ⟨slot.ref, x.ll⟩ : RefLL), (RefLLs.encStep p s x).2) := by
  unfold RefLLs.encStep RefLLs.decStepInto
  cases hr : x.isRef
  · simp only [Bool.false_eq_true, if_false]
    exact (RT.map _ (rt_latlngsStep s.2 x.ll)).congr rfl rfl
  · simp only [if_true]
    exact (RT.map _ (rt_referencesStep p s.1 x.ref)).congr rfl rfl

theorem rt_refLLsLoopInto (p : BitVec 16) (g : List RefLL) : ∀ (old : List RefLL) (s : MixedState),
    RT (encEach (RefLLs.encStep p) s g) (RefLLs.decLoopInto p (g.map RefLL.isRef) old s) (RefLLs.overlay old g) := by
  induction g with
  | nil => intro old s; exact RT.pure _
  | cons x xs ih =>
    intro old s
    simp only [encEach, List.map_cons, RefLLs.decLoopInto, RefLLs.overlay]
    exact RT.andThen (f := fun r => (RefLLs.decLoopInto p (xs.map RefLL.isRef) (splitSlot RefLL.zero old).2 r.2).map (r.1 :: ·))
      (rt_refLLsStepInto p s x (splitSlot RefLL.zero old).1) (RT.map _ (ih _ _))

/-- marshal `g`, unmarshal into a receiver that holds `old`: what comes back is `overlay old g` — for every
`g` and `old`, with exact consumption -/
theorem rt_refLLsInto (old : List RefLL) (p : BitVec 16) (g : List RefLL) (h : RefLLs.ok g = true) :
    RT (RefLLs.enc p g) (RefLLs.decInto old p) (RefLLs.overlay old g) := by
  obtain ⟨_, hl, _⟩ := lenOk_spec 2 g.length (by omega) h
  have hlen : g.length < 2 ^ 62 := by
    simp only [RefLLs.ok, lenOk, Bool.and_eq_true, decide_eq_true_eq] at h
    exact h.1
  unfold RefLLs.enc RefLLs.decInto
  rw [List.append_assoc]
  refine RT.andThen (rt_lenHeader 2 g.length (by omega) h) ?_
  rw [hl]
  unfold RefLLs.decBodyInto
  refine RT.andThen (rt_bits (g.map RefLL.isRef) (by simp [Bits.ok]; omega)) ?_
  rw [if_neg (by simp), List.take_of_length_le (by simp)]
  exact rt_refLLsLoopInto p g old _

theorem refLLs_overlay_eq_iff (g : List RefLL) : ∀ old : List RefLL,
    RefLLs.overlay old g = g ↔ RefLLs.compatible old g = true := by
  induction g with
  | nil => intro old; simp [RefLLs.overlay, RefLLs.compatible]
  | cons x xs ih =>
    intro old
    simp only [RefLLs.overlay, RefLLs.compatible, List.cons.injEq, Bool.and_eq_true, ih]
    refine and_congr ?_ Iff.rfl
    cases x with
    | mk r l =>
      by_cases hr : RefLL.isRef ⟨r, l⟩ = true
      · simp only [hr, if_true, beq_iff_eq, RefLL.mk.injEq, true_and]
      · simp only [hr, Bool.false_eq_true, if_false, beq_iff_eq, RefLL.mk.injEq, and_true]

/-- a fresh receiver is compatible with every canonical value -/
theorem refLLs_compatible_fresh (g : List RefLL) (hc : ∀ x ∈ g, x.canonical = true) : RefLLs.compatible [] g = true := by
  induction g with
  | nil => rfl
  | cons x xs ih =>
    simp only [RefLLs.compatible, splitSlot, Bool.and_eq_true]
    refine ⟨?_, ih (fun y hy => hc y (by simp [hy]))⟩
    have hx := hc x (by simp)
    simp only [RefLL.canonical, Bool.or_eq_true, beq_iff_eq] at hx
    cases hr : x.isRef
    · have : x.ref = Reference.invalid := by simpa [RefLL.isRef] using hr
      simp [RefLL.zero, this]
    · have hne : x.ref ≠ Reference.invalid := by simpa [RefLL.isRef] using hr
      rcases hx with h | h
      · exact absurd h hne
      · simp [RefLL.zero, h]

/-- on a fresh receiver the slot-aware loop is the plain one -/
theorem refLLs_decLoopInto_nil (p : BitVec 16) (fls : List Bool) : ∀ s : MixedState,
    RefLLs.decLoopInto p fls [] s = Dec.forEach (RefLLs.decStep p) fls s := by
  induction fls with
  | nil => intro s; rfl
  | cons fl fls ih =>
    intro s
    simp only [RefLLs.decLoopInto, Dec.forEach, splitSlot]
    have : RefLLs.decStepInto p fl RefLL.zero s = RefLLs.decStep p fl s := by
      unfold RefLLs.decStepInto RefLLs.decStep; rfl
    rw [this]
    congr 1
    funext r
    rw [ih]

theorem refLLs_decInto_nil (p : BitVec 16) : RefLLs.decInto [] p = RefLLs.dec p := by
  unfold RefLLs.decInto RefLLs.dec RefLLs.decBodyInto RefLLs.decBody
  simp only [refLLs_decLoopInto_nil]

/-- the usage discipline under which reuse is invisible: the receiver last held a canonical value with the same
reference / lat-lng pattern on the overlap -/
theorem refLLs_compatible_same_shape (g : List RefLL) : ∀ old : List RefLL,
    (∀ x ∈ g, x.canonical = true) → (∀ x ∈ old, x.canonical = true) →
    (∀ pr ∈ old.zip g, pr.1.isRef = pr.2.isRef) → RefLLs.compatible old g = true := by
  induction g with
  | nil => intro old _ _ _; rfl
  | cons x xs ih =>
    intro old hg ho hz
    cases old with
    | nil => exact refLLs_compatible_fresh (x :: xs) hg
    | cons o os =>
      simp only [RefLLs.compatible, splitSlot, Bool.and_eq_true]
      refine ⟨?_, ih os (fun y hy => hg y (by simp [hy])) (fun y hy => ho y (by simp [hy]))
        (fun pr hpr => hz pr (by simp [hpr]))⟩
      have hx := hg x (by simp)
      have hoc := ho o (by simp)
      have hsame : o.isRef = x.isRef := hz (o, x) (by simp)
      simp only [RefLL.canonical, Bool.or_eq_true, beq_iff_eq] at hx hoc
      cases hr : x.isRef
      · rw [hr] at hsame
        have h1 : x.ref = Reference.invalid := by simpa [RefLL.isRef] using hr
        have h2 : o.ref = Reference.invalid := by simpa [RefLL.isRef] using hsame
        simp [h1, h2]
      · rw [hr] at hsame
        have h1 : x.ref ≠ Reference.invalid := by simpa [RefLL.isRef] using hr
        have h2 : o.ref ≠ Reference.invalid := by simpa [RefLL.isRef] using hsame
        have e1 : x.ll = LatLng.zero := by rcases hx with h | h; exact absurd h h1; exact h
        have e2 : o.ll = LatLng.zero := by rcases hoc with h | h; exact absurd h h2; exact h
        simp [e1, e2]

/-! ## reused receivers: AreaGeometryMixed -/

theorem rt_polygonMixedInto (p : BitVec 16) (q slot : PolygonMixed) (hok : q.ok = true) :
    RT (q.enc p) (PolygonMixed.decInto p q.isRef slot)
      (if q.isRef then ⟨q.paths, slot.ll⟩ else ⟨slot.paths, q.ll⟩ : PolygonMixed) := by
  unfold PolygonMixed.enc PolygonMixed.decInto
  cases hr : q.isRef
  · simp only [PolygonMixed.ok, hr, Bool.false_eq_true, if_false] at hok
    simp only [Bool.false_eq_true, if_false]
    exact RT.map _ (rt_polygonLL q.ll hok)
  · simp only [PolygonMixed.ok, hr, if_true] at hok
    simp only [if_true]
    exact RT.map _ (rt_references p q.paths hok)

theorem rt_areaGeomMixedLoopInto (p : BitVec 16) (ps : List PolygonMixed) : ∀ (old : List PolygonMixed),
    (∀ q ∈ ps, q.ok = true) →
    RT (encEach (fun (_ : Unit) q => (PolygonMixed.enc p q, ())) () ps)
      (AreaGeomMixed.decLoopInto p (ps.map PolygonMixed.isRef) old) (AreaGeomMixed.overlay old ps) := by
  induction ps with
  | nil => intro old _; exact RT.pure _
  | cons x xs ih =>
    intro old hok
    simp only [encEach, List.map_cons, AreaGeomMixed.decLoopInto, AreaGeomMixed.overlay]
    exact RT.andThen (f := fun q => (AreaGeomMixed.decLoopInto p (xs.map PolygonMixed.isRef) (splitSlot PolygonMixed.zero old).2).map (q :: ·))
      (rt_polygonMixedInto p x (splitSlot PolygonMixed.zero old).1 (hok x (by simp)))
      (RT.map _ (ih _ (fun q hq => hok q (by simp [hq]))))

theorem rt_areaGeomMixedInto (old : List PolygonMixed) (p : BitVec 16) (ps : List PolygonMixed)
    (h : AreaGeomMixed.ok ps = true) :
    RT (AreaGeomMixed.enc p ps) (AreaGeomMixed.decInto old p) (AreaGeomMixed.overlay old ps) := by
  simp only [AreaGeomMixed.ok, Bool.and_eq_true, decide_eq_true_eq, List.all_eq_true] at h
  obtain ⟨h1, h2, _⟩ := geometryWord_spec 2 ps.length (by omega) h.1
  unfold AreaGeomMixed.enc AreaGeomMixed.decInto
  rw [List.append_assoc]
  refine RT.andThen (rt_uvarint _ h1) ?_
  rw [h2]
  unfold AreaGeomMixed.decBodyInto
  refine RT.andThen (rt_bits (ps.map PolygonMixed.isRef) (by simp [Bits.ok]; omega)) ?_
  rw [if_neg (by simp), List.take_of_length_le (by simp)]
  exact rt_areaGeomMixedLoopInto p ps old h.2

theorem areaGeomMixed_overlay_eq_iff (ps : List PolygonMixed) : ∀ old : List PolygonMixed,
    AreaGeomMixed.overlay old ps = ps ↔ AreaGeomMixed.compatible old ps = true := by
  induction ps with
  | nil => intro old; simp [AreaGeomMixed.overlay, AreaGeomMixed.compatible]
  | cons x xs ih =>
    intro old
    simp only [AreaGeomMixed.overlay, AreaGeomMixed.compatible, List.cons.injEq, Bool.and_eq_true, ih]
    refine and_congr ?_ Iff.rfl
    cases x with
    | mk r l =>
      by_cases hr : PolygonMixed.isRef ⟨r, l⟩ = true
      · simp only [hr, if_true, beq_iff_eq, PolygonMixed.mk.injEq, true_and]
      · simp only [hr, Bool.false_eq_true, if_false, beq_iff_eq, PolygonMixed.mk.injEq, and_true]

/-! ## truncated buffers -/

/-- `binary.Uvarint` on a proper prefix of a `PutUvarint` output: value 0, `n = 0` ("buffer too small") -/
theorem uvarintRawAux_prefix (f : Nat) : ∀ (v k s x i : Nat), k < (putUvarintFuel f v).length → i + k ≤ 10 →
    uvarintRawAux ((putUvarintFuel f v).take k) s x i = (0, 0) := by
  induction f with
  | zero =>
    intro v k s x i hk _
    simp only [putUvarintFuel, List.length_cons, List.length_nil] at hk
    have : k = 0 := by omega
    subst this; rfl
  | succ f ih =>
    intro v k s x i hk hi
    simp only [putUvarintFuel] at hk ⊢
    split at hk
    · simp only [List.length_cons, List.length_nil] at hk
      have : k = 0 := by omega
      subst this; rfl
    · rename_i hv
      rw [if_neg hv]
      cases k with
      | zero => rfl
      | succ k =>
        simp only [List.length_cons] at hk
        have hb : ((v % 128 + 128).toUInt8).toNat = v % 128 + 128 := toUInt8_toNat _ (by omega)
        simp only [List.take_succ_cons, uvarintRawAux, hb]
        rw [if_neg (by omega), if_neg (by omega)]
        exact ih (v / 128) k _ _ (i + 1) (by omega) (by omega)

theorem uvarintRaw_prefix (v k : Nat) (hk : k < (putUvarint v).length) :
    uvarintRaw ((putUvarint v).take k) = (0, 0) := by
  have hl := putUvarint_length_le v
  exact uvarintRawAux_prefix 9 v k 0 0 0 hk (by omega)

theorem take_append_lt {α : Type} (a b : List α) (k : Nat) (h : k < a.length) : (a ++ b).take k = a.take k := by
  rw [List.take_append_of_le_length (by omega)]

theorem take_append_ge {α : Type} (a b : List α) (k : Nat) (h : a.length ≤ k) : (a ++ b).take k = a ++ b.take (k - a.length) := by
  rw [List.take_append]
  rw [List.take_of_length_le h]

theorem sliceFrom_append (a b : Bytes) : sliceFrom (a ++ b) (a.length : Int) = some b := by
  unfold sliceFrom
  rw [if_neg (by simp; omega)]
  simp

theorem sliceFrom_zero (bs : Bytes) : sliceFrom bs 0 = some bs := by
  unfold sliceFrom
  rw [if_neg (by omega)]
  simp

/-- a truncated `Reference`: no panic; the reference read is the primary one with value 0 and 0 bytes, or —
when the explicit namespace word survived — that namespace with value 0 and only that word's bytes -/
theorem reference_truncated_raw (p : BitVec 16) (r : Reference) (k : Nat) (hk : k < (Reference.enc p r).length) :
    Reference.decRaw p ((Reference.enc p r).take k) =
      if (r.tn ≠ p ∨ 2 ^ 63 ≤ r.value.toNat) ∧ (putUvarint (r.tn.toNat * 2 + 1)).length ≤ k
      then .ok ⟨r.tn, 0#64⟩ (putUvarint (r.tn.toNat * 2 + 1)).length else .ok ⟨p, 0#64⟩ 0 := by
  have htn := r.tn.isLt
  unfold Reference.enc at hk ⊢
  by_cases hex : r.tn ≠ p ∨ 2 ^ 63 ≤ r.value.toNat
  · rw [if_pos hex] at hk ⊢
    by_cases hge : (putUvarint (r.tn.toNat * 2 + 1)).length ≤ k
    · rw [if_pos ⟨hex, hge⟩, take_append_ge _ _ _ hge]
      simp only [List.length_append] at hk
      have h1 := uvarintRaw_putUvarint_append (r.tn.toNat * 2 + 1) (by omega)
        ((putUvarint r.value.toNat).take (k - (putUvarint (r.tn.toNat * 2 + 1)).length))
      have h2 := uvarintRaw_prefix r.value.toNat (k - (putUvarint (r.tn.toNat * 2 + 1)).length) (by omega)
      simp only [Reference.decRaw, h1, sliceFrom_append, h2]
      rw [if_pos (by omega)]
      have : (r.tn.toNat * 2 + 1) / 2 = r.tn.toNat := by omega
      simp [this]
    · rw [if_neg (fun h => hge h.2), take_append_lt _ _ _ (by omega)]
      have h2 := uvarintRaw_prefix (r.tn.toNat * 2 + 1) k (by omega)
      simp [Reference.decRaw, h2]
  · rw [if_neg hex] at hk ⊢
    rw [if_neg (fun h => hex h.1)]
    have h2 := uvarintRaw_prefix _ k hk
    simp [Reference.decRaw, h2]

/-- a truncated `Int`: value 0, 0 bytes, no panic -/
theorem int_truncated_raw (v k : Nat) (hk : k < (putUvarint v).length) :
    Int.decRaw ((putUvarint v).take k) = .ok 0#64 0 := by
  simp [Int.decRaw, uvarintRaw_prefix v k hk]

/-- a truncated string: the empty string and 0 bytes while the length varint is incomplete, a slice-bounds
panic afterwards -/
theorem string_truncated_raw (s : Bytes) (hs : s.length < 2 ^ 63) (k : Nat) (hk : k < (Str.enc s).length) :
    Str.decRaw ((Str.enc s).take k) = if k < (putUvarint s.length).length then .ok [] 0 else .panic := by
  unfold Str.enc at hk ⊢
  by_cases hlt : k < (putUvarint s.length).length
  · rw [if_pos hlt, take_append_lt _ _ _ hlt]
    simp [Str.decRaw, uvarintRaw_prefix _ k hlt]
  · rw [if_neg hlt, take_append_ge _ _ _ (by omega)]
    simp only [List.length_append] at hk
    have h1 := uvarintRaw_putUvarint_append s.length (by omega) (s.take (k - (putUvarint s.length).length))
    simp only [Str.decRaw, h1, hs, if_true]
    rw [if_pos]
    right; right
    simp only [List.length_append, List.length_take]
    omega

/-- a truncated `NamespaceIndex`: no panic; missing words read as 0 -/
theorem namespaceIndex_truncated_raw (x : NamespaceIndex) (k : Nat) (hk : k < x.enc.length) :
    NamespaceIndex.decRaw (x.enc.take k) =
      if (putUvarint x.tn.toNat).length ≤ k then .ok ⟨x.tn, 0#64⟩ (putUvarint x.tn.toNat).length else .ok ⟨0#16, 0#64⟩ 0 := by
  have htn := x.tn.isLt
  unfold NamespaceIndex.enc at hk ⊢
  by_cases hge : (putUvarint x.tn.toNat).length ≤ k
  · rw [if_pos hge, take_append_ge _ _ _ hge]
    simp only [List.length_append] at hk
    have h1 := uvarintRaw_putUvarint_append x.tn.toNat (by omega) ((putUvarint x.index.toNat).take (k - (putUvarint x.tn.toNat).length))
    have h2 := uvarintRaw_prefix x.index.toNat (k - (putUvarint x.tn.toNat).length) (by omega)
    simp [NamespaceIndex.decRaw, h1, sliceFrom_append, h2]
  · rw [if_neg hge, take_append_lt _ _ _ (by omega)]
    have h2 := uvarintRaw_prefix x.tn.toNat k (by omega)
    simp only [NamespaceIndex.decRaw, h2, sliceFrom_zero]
    simp

/-- a truncated `Namespaces`: index out of range -/
theorem namespaces_truncated_raw (n : Namespaces) (k : Nat) (hk : k < 8) : Namespaces.decRaw (n.enc.take k) = .panic := by
  simp only [Namespaces.decRaw, List.length_take]
  rw [if_pos (by omega)]

/-- a truncated point value: a panic (`LittleEndian.Uint32` on fewer than four bytes) — except when at least four
bytes of a still incomplete latitude varint are there: then latitude 0, those four bytes as the longitude, and
4 bytes reported -/
theorem latlng_truncated_raw (ll : LatLng) (k : Nat) (hk : k < ll.enc.length) :
    LatLng.decRaw (ll.enc.take k) = .panic ∨
      (4 ≤ k ∧ k < (putUvarint (encodeValueType 1 ll.latWord)).length ∧
        LatLng.decRaw (ll.enc.take k) = .ok ⟨0#32, BitVec.ofNat 32 (leValue (ll.enc.take 4))⟩ 4) := by
  have hw := latWord_lt ll
  obtain ⟨a, _, _⟩ := encodeValueType_spec 1 ll.latWord (by omega) (by omega)
  unfold LatLng.enc at hk ⊢
  have h4 : (putU32 ll.lng).length = 4 := marshalUint64_length _ _
  by_cases hlt : k < (putUvarint (encodeValueType 1 ll.latWord)).length
  · rw [take_append_lt _ _ _ hlt]
    have h2 := uvarintRaw_prefix _ k hlt
    by_cases hk4 : k < 4
    · left
      simp only [LatLng.decRaw, h2, sliceFrom_zero]
      rw [if_pos (by simp only [List.length_take]; omega)]
    · right
      refine ⟨by omega, hlt, ?_⟩
      simp only [LatLng.decRaw, h2, sliceFrom_zero]
      rw [if_neg (by simp only [List.length_take]; omega)]
      have e1 : ((putUvarint (encodeValueType 1 ll.latWord)).take k).take 4 =
          (putUvarint (encodeValueType 1 ll.latWord) ++ putU32 ll.lng).take 4 := by
        rw [List.take_take, take_append_lt _ _ _ (by omega)]
        congr 1; omega
      rw [e1]
      simp [zigzagDecode]
  · left
    rw [take_append_ge _ _ _ (by omega)]
    simp only [List.length_append] at hk
    have h1 := uvarintRaw_putUvarint_append (encodeValueType 1 ll.latWord) a
      ((putU32 ll.lng).take (k - (putUvarint (encodeValueType 1 ll.latWord)).length))
    simp only [LatLng.decRaw, h1, sliceFrom_append, List.length_take]
    rw [if_pos (by omega)]

end B6.Model.Records
