import B6.Lemmas.CompactIndexPoints
/-!
# C01 lemmas, part 8: `EachFeature` reaches every feature of an accepted source
-/
namespace B6.Model.CompactIndex
open B6.Model.Varint B6.Model.Records
open B6.Model.Containers (Entry)

theorem mem_iterInsert (bits : Nat) (e x : Entry) : ∀ l : List Entry, x ∈ iterInsert bits e l ↔ x = e ∨ x ∈ l := by
  intro l
  induction l with
  | nil => simp [iterInsert]
  | cons y ys ih =>
    unfold iterInsert
    split
    · simp
    · simp only [List.mem_cons, ih]
      constructor
      · rintro (h | h | h)
        · exact Or.inr (Or.inl h)
        · exact Or.inl h
        · exact Or.inr (Or.inr h)
      · rintro (h | h | h)
        · exact Or.inr (Or.inl h)
        · exact Or.inl h
        · exact Or.inr (Or.inr h)

/-- iteration visits exactly the entries of the block -/
theorem mem_iterIds (b : Block) (x : Entry) : x ∈ iterIds b ↔ x ∈ b.entries := by
  unfold iterIds
  generalize b.entries = l
  induction l with
  | nil => simp
  | cons y ys ih => simp only [List.foldr_cons, mem_iterInsert, ih, List.mem_cons]

/-- the id `EachFeature` reports for an entry of a routed block -/
theorem each_of_entry (ix : Index) (t : Nat) (ht : t < 4) (b : Block) (hb : b ∈ ix.blocks) (hbt : b.typ = t)
    (n : Nat) (hn : n < 2 ^ 16) (hhdr : nssGet b.hdr t = ns16 n) (ns : Str) (hns : nsDecode ix.nt n = some ns)
    (e : Entry) (he : e ∈ b.entries) (htag : t = 0 → e.tag ≠ 2#64) : (⟨t, ns, e.id⟩ : FID) ∈ each ix := by
  unfold each
  simp only [List.mem_flatMap, List.mem_filterMap]
  refine ⟨t, by rcases t with _ | _ | _ | _ | t <;> simp <;> omega, b, List.mem_filter.mpr ⟨hb, by simp [hbt]⟩, e, (mem_iterIds b e).mpr he, ?_⟩
  have hnat : (ns16 n).toNat = n := by simp [ns16]; omega
  have hskip : (t == 0 && e.tag == 2#64) = false := by
    by_cases h0 : t = 0
    · have := htag h0
      simp [h0, this]
    · simp [h0]
  simp only [hskip, Bool.false_eq_true, if_false, hhdr, hnat, hns, Option.map_some]

/-- **`EachFeature` is complete**: after a successful build of an accepted source every feature's id is
enumerated (with its true type, namespace and value) -/
theorem each_complete (strs : List Str) (fs : List Feature) (ix : Index) (hbuild : build strs fs = .ok ix)
    (hacc : Accepts strs fs = true) (f : Feature) (hf : f ∈ fs) : f.id ∈ each ix := by
  have hA := accepts_facts strs fs hacc
  obtain ⟨c, scr, hb, hp⟩ := build_points strs fs ix hbuild
  have hOK := hA.ok f hf
  unfold featureOK at hOK
  simp only [Bool.and_eq_true, decide_eq_true_eq] at hOK
  obtain ⟨⟨⟨_, htyp⟩, _⟩, hmatch⟩ := hOK
  have hid : f.id = ⟨f.id.typ, f.id.ns, f.id.val⟩ := by cases f.id; rfl
  by_cases h0 : f.id.typ = 0
  · obtain ⟨n, b, e, ts, rest, hn, hbmem, hbt, hbh, _, hholds, _, _, _⟩ :=
      placed_point strs fs ix c scr hb hp hA.small hA.distinct f hf h0
    have hnlt := nsEncode_lt _ _ _ hn
    rw [hb.hnt] at hnlt
    have htag := hholds.tag
    simp only [h0, if_true] at htag
    rw [hid, ← hholds.id_eq]
    exact each_of_entry ix f.id.typ htyp b hbmem (by rw [hbt, h0]) n (by have := hA.small; omega)
      (by rw [hbh, h0]; rfl) f.id.ns (nsEncode_decode _ _ _ hn) e hholds.mem (fun _ => htag)
  · have ht : f.id.typ = 1 ∨ f.id.typ = 2 ∨ f.id.typ = 3 := by omega
    have hk : kept fs f = true := by
      unfold kept
      rcases ht with h | h | h <;> simp only [h] at hmatch ⊢
      · simp only [Bool.and_eq_true] at hmatch; exact hmatch.1.1.2
      · simp only [Bool.and_eq_true] at hmatch; exact hmatch.1.2
    obtain ⟨n, b, e, hn, hbm, hbt, hbh, _, hem, heid, _, _, _⟩ :=
      placed strs fs ix c hb hA.small hA.distinct f hf ht hk
    have hnlt := nsEncode_lt _ _ _ hn
    rw [hb.hnt] at hnlt
    rw [hid, ← heid]
    exact each_of_entry ix f.id.typ htyp b hbm hbt n (by have := hA.small; omega)
      (by rw [hbh]; exact nssGet_blockHeader c _ n ht) f.id.ns (nsEncode_decode _ _ _ hn) e hem (fun h => absurd h h0)

end B6.Model.CompactIndex
