import B6.Model.Validate
/-!
Helper lemmas for C37 (`B6.Props.C37`): what a validation stage of `Finish` keeps, and that the
locations / paths later validations look at are unchanged by it.
-/
namespace B6.Lemmas.Validate
open B6.Model.Validate

def Uniq (w : World) : Prop := (w.map (·.id)).Nodup

theorem find_some_mem {w : World} {id : Id} {f : Feat} (h : find w id = some f) : f ∈ w ∧ f.id = id := by
  unfold find at h
  exact ⟨List.mem_of_find?_eq_some h, by simpa using List.find?_some h⟩

theorem find_of_mem {w : World} (hu : Uniq w) {f : Feat} (hf : f ∈ w) : find w f.id = some f := by
  induction w with
  | nil => cases hf
  | cons a l ih =>
    unfold Uniq at hu
    simp only [List.map_cons, List.nodup_cons] at hu
    unfold find
    rw [List.find?_cons]
    by_cases ha : a.id = f.id
    · rcases List.mem_cons.mp hf with rfl | hfl
      · simp
      · exact absurd (List.mem_map.mpr ⟨f, hfl, ha.symm⟩) hu.1
    · rcases List.mem_cons.mp hf with rfl | hfl
      · exact absurd rfl ha
      · simp only [ha, decide_false, Bool.false_eq_true]
        exact ih hu.2 hfl

theorem validateFeature_id {O : Oracle} {invert : Bool} {w : World} {f g : Feat} {b : Bool}
    (h : validateFeature O invert w f = some (b, g)) : g.id = f.id := by
  unfold validateFeature at h
  split at h
  · split at h
    · injection h with h; injection h with _ h; rw [← h]
    · injection h with h; injection h with _ h; rw [← h]
    · split at h <;> (injection h with h; injection h with _ h; rw [← h])
  · split at h
    · injection h with h; injection h with _ h; rw [← h]
    · cases h
  · injection h with h; injection h with _ h; rw [← h]

/-- same kind of geometry; a point is unchanged -/
def SameKind (f g : Feat) : Prop :=
  g.id = f.id ∧
  (match f.geo with
   | .point _ => g = f
   | .path _ => ∃ r, g.geo = .path r
   | .area _ => g = f
   | .other _ => g = f)

theorem validateFeature_kind {O : Oracle} {invert : Bool} {w : World} {f g : Feat} {b : Bool}
    (h : validateFeature O invert w f = some (b, g)) : SameKind f g := by
  refine ⟨validateFeature_id h, ?_⟩
  unfold validateFeature at h
  cases hg : f.geo with
  | point l => simp only [hg] at h; injection h with h; injection h with _ h; exact h.symm
  | other r => simp only [hg] at h; injection h with h; injection h with _ h; exact h.symm
  | area p =>
    simp only [hg] at h
    split at h
    · injection h with h; injection h with _ h; exact h.symm
    · cases h
  | path r =>
    simp only [hg] at h
    split at h
    · injection h with h; injection h with _ h; exact ⟨r, by rw [← h]; exact hg⟩
    · injection h with h; injection h with _ h; exact ⟨r, by rw [← h]; exact hg⟩
    · split at h <;> (injection h with h; injection h with _ h)
      · exact ⟨r.reverse, by rw [← h]⟩
      · exact ⟨r, by rw [← h]; exact hg⟩

/-- what a stage produces: each output is the (possibly inverted) image of an input, in order -/
inductive Img (O : Oracle) (invert : Bool) (sel : Feat → Bool) (ctx : World) : World → World → Prop where
  | nil : Img O invert sel ctx [] []
  | skip {f l l'} : sel f = false → Img O invert sel ctx l l' → Img O invert sel ctx (f :: l) (f :: l')
  | keep {f g l l'} : sel f = true → validateFeature O invert ctx f = some (true, g) →
      Img O invert sel ctx l l' → Img O invert sel ctx (f :: l) (g :: l')
  | drop {f g l l'} : sel f = true → validateFeature O invert ctx f = some (false, g) →
      Img O invert sel ctx l l' → Img O invert sel ctx (f :: l) l'

theorem stageOn_img (O : Oracle) (invert : Bool) (sel : Feat → Bool) (ctx : World) :
    ∀ (l l' : World), stageOn O invert sel ctx l = some l' → Img O invert sel ctx l l' := by
  intro l
  induction l with
  | nil => intro l' h; simp only [stageOn] at h; injection h with h; subst h; exact .nil
  | cons f l ih =>
    intro l' h
    simp only [stageOn] at h
    cases hr : stageOn O invert sel ctx l with
    | none => simp [hr] at h
    | some rest =>
      simp only [hr] at h
      by_cases hs : sel f = true
      · simp only [hs, ↓reduceIte] at h
        cases hv : validateFeature O invert ctx f with
        | none => simp [hv] at h
        | some p =>
          obtain ⟨b, g⟩ := p
          cases b with
          | true => simp only [hv] at h; injection h with h; subst h; exact .keep hs hv (ih _ hr)
          | false => simp only [hv] at h; injection h with h; subst h; exact .drop hs hv (ih _ hr)
      · have hs' : sel f = false := by simpa using hs
        simp only [hs', Bool.false_eq_true, ↓reduceIte] at h
        injection h with h; subst h
        exact .skip hs' (ih _ hr)

/-- every output comes from an input of the same ID and kind -/
theorem img_mem {O : Oracle} {invert : Bool} {sel : Feat → Bool} {ctx l l' : World}
    (h : Img O invert sel ctx l l') : ∀ g ∈ l', ∃ f ∈ l, SameKind f g ∧
      ((sel f = false ∧ g = f) ∨ (sel f = true ∧ validateFeature O invert ctx f = some (true, g))) := by
  induction h with
  | nil => intro g hg; cases hg
  | @skip f l l' hs _ ih =>
    intro g hg
    rcases List.mem_cons.mp hg with rfl | hg
    · refine ⟨g, List.mem_cons_self, ⟨rfl, ?_⟩, Or.inl ⟨hs, rfl⟩⟩
      cases g.geo <;> simp
    · obtain ⟨f', hf', h1, h2⟩ := ih g hg
      exact ⟨f', List.mem_cons_of_mem _ hf', h1, h2⟩
  | @keep f g0 l l' hs hv _ ih =>
    intro g hg
    rcases List.mem_cons.mp hg with rfl | hg
    · exact ⟨f, List.mem_cons_self, validateFeature_kind hv, Or.inr ⟨hs, hv⟩⟩
    · obtain ⟨f', hf', h1, h2⟩ := ih g hg
      exact ⟨f', List.mem_cons_of_mem _ hf', h1, h2⟩
  | drop _ _ _ ih =>
    intro g hg
    obtain ⟨f', hf', h1, h2⟩ := ih g hg
    exact ⟨f', List.mem_cons_of_mem _ hf', h1, h2⟩

theorem img_ids_sub {O : Oracle} {invert : Bool} {sel : Feat → Bool} {ctx l l' : World}
    (h : Img O invert sel ctx l l') : (l'.map (·.id)).Sublist (l.map (·.id)) := by
  induction h with
  | nil => exact List.Sublist.refl _
  | skip _ _ ih => simp only [List.map_cons]; exact ih.cons_cons _
  | keep _ hv _ ih =>
    simp only [List.map_cons]
    rw [validateFeature_id hv]
    exact ih.cons_cons _
  | drop _ _ _ ih => simp only [List.map_cons]; exact ih.cons _

theorem img_uniq {O : Oracle} {invert : Bool} {sel : Feat → Bool} {ctx l l' : World}
    (h : Img O invert sel ctx l l') (hu : Uniq l) : Uniq l' :=
  List.Nodup.sublist (img_ids_sub h) hu

/-- unselected features and points pass through -/
theorem img_keeps {O : Oracle} {invert : Bool} {sel : Feat → Bool} {ctx l l' : World}
    (h : Img O invert sel ctx l l') : ∀ f ∈ l, (sel f = false ∨ ∃ k, f.geo = .point k) → f ∈ l' := by
  induction h with
  | nil => intro f hf; cases hf
  | @skip f0 l l' hs _ ih =>
    intro f hf hc
    rcases List.mem_cons.mp hf with rfl | hf
    · exact List.mem_cons_self
    · exact List.mem_cons_of_mem _ (ih f hf hc)
  | @keep f0 g l l' hs hv _ ih =>
    intro f hf hc
    rcases List.mem_cons.mp hf with rfl | hf
    · rcases hc with hc | ⟨k, hk⟩
      · rw [hs] at hc; cases hc
      · have := (validateFeature_kind hv).2
        simp only [hk] at this
        rw [this]; exact List.mem_cons_self
    · exact List.mem_cons_of_mem _ (ih f hf hc)
  | @drop f0 g l l' hs hv _ ih =>
    intro f hf hc
    rcases List.mem_cons.mp hf with rfl | hf
    · rcases hc with hc | ⟨k, hk⟩
      · rw [hs] at hc; cases hc
      · exfalso
        unfold validateFeature at hv
        simp [hk] at hv
    · exact ih f hf hc

def pointLoc (f : Feat) : Option Nat := match f.geo with | .point l => l | _ => none

theorem locOf_eq (w : World) (id : Id) :
    locOf w id = if id.1 = 9 then some (1000 + id.2) else (find w id).bind pointLoc := by
  unfold locOf
  by_cases hi : id.1 = 9
  · simp [hi]
  · simp only [hi, ↓reduceIte]
    cases find w id with
    | none => rfl
    | some f =>
      obtain ⟨i, g⟩ := f
      cases g with
      | point l => cases l <;> rfl
      | path r => rfl
      | area p => rfl
      | other r => rfl

theorem sameKind_pointLoc {f g : Feat} (h : SameKind f g) : pointLoc g = pointLoc f := by
  obtain ⟨_, h2⟩ := h
  cases hgeo : f.geo with
  | point k => simp only [hgeo] at h2; rw [h2]
  | area p => simp only [hgeo] at h2; rw [h2]
  | other p => simp only [hgeo] at h2; rw [h2]
  | path r =>
    simp only [hgeo] at h2
    obtain ⟨r', hr'⟩ := h2
    simp [pointLoc, hgeo, hr']

/-- locations are those of the input -/
theorem img_locOf {O : Oracle} {invert : Bool} {sel : Feat → Bool} {ctx l l' : World}
    (h : Img O invert sel ctx l l') (hu : Uniq l) (id : Id) : locOf l' id = locOf l id := by
  have hu' := img_uniq h hu
  rw [locOf_eq, locOf_eq]
  by_cases hinl : id.1 = 9
  · simp [hinl]
  simp only [hinl, ↓reduceIte]
  cases hf' : find l' id with
  | some g =>
    obtain ⟨hg, hgid⟩ := find_some_mem hf'
    obtain ⟨f, hfl, hk, _⟩ := img_mem h g hg
    have := find_of_mem hu hfl
    rw [← hk.1, hgid] at this
    rw [this]
    simp only [Option.bind_some]
    exact sameKind_pointLoc hk
  | none =>
    cases hf : find l id with
    | none => rfl
    | some f =>
      obtain ⟨hfl, hfid⟩ := find_some_mem hf
      simp only [Option.bind_none, Option.bind_some]
      cases hgeo : f.geo with
      | point k =>
        have hf'' : f ∈ l' := img_keeps h f hfl (Or.inr ⟨k, hgeo⟩)
        have := find_of_mem hu' hf''
        rw [hfid, hf'] at this; cases this
      | path r => simp [pointLoc, hgeo]
      | area r => simp [pointLoc, hgeo]
      | other r => simp [pointLoc, hgeo]

theorem pathSlots_congr {w w' : World} (h : ∀ id, locOf w' id = locOf w id) (refs : List Id) :
    pathSlots w' refs = pathSlots w refs := by
  unfold pathSlots
  have : locOf w' = locOf w := funext h
  rw [this]

end B6.Lemmas.Validate
