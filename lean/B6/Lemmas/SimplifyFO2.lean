import B6.Lemmas.SimplifyFO
/-!
C22 `simplify_preserves_lambda_free`, part 2: applying chains of partial applications; function
application respects the simulation at equal fuel (`apply_sim`); closed expressions (`ESim`, congruence
of calls, transitivity); the rewrites `(f)` to `f` and query flattening.
-/
namespace B6.Lemmas.SimplifyFO
open B6.Model B6.Lemmas.InterpFuel

/-! ### applying chains; function application respects the simulation -/

theorem applyFn_mono_add (n k : Nat) (f : Val) (args : List Val) (h : applyFn n f args ≠ .error .fuel) :
    applyFn (n + k) f args = applyFn n f args := by
  induction k with
  | zero => rfl
  | succ k ih => rw [← Nat.add_assoc, applyFn_mono (n + k) f args (by rw [ih]; exact h), ih]

theorem want_nonvar {b : Builtin} (h : b.variadic = none) (n : Nat) : b.want n = b.arity := by
  simp [Builtin.want, Builtin.arity, h]

theorem paramsAt_nonvar {b : Builtin} (h : b.variadic = none) (n : Nat) : b.paramsAt n = b.params := by
  simp [Builtin.paramsAt, h]

theorem lt_arity_of_lt_want {b : Builtin} {n : Nat} (h : n < b.want n) : n < b.arity := by
  unfold Builtin.want at h
  unfold Builtin.arity
  cases hv : b.variadic with
  | none => simpa [hv] using h
  | some t =>
    simp only [hv] at h ⊢
    split at h <;> omega

theorem FnLike.depth_zero {v : Val} {b : Builtin} {L : List Val} (h : FnLike v b L) (hd : depth v = 0) :
    v = .builtin b ∧ L = [] := by
  cases h with
  | base => exact ⟨rfl, rfl⟩
  | part _ _ => simp [depth] at hd

theorem chain_lt {v : Val} {b : Builtin} {L args : List Val} (n : Nat) (h : FnLike v b L)
    (hv : b.variadic = none ∨ 0 < depth v)
    (hl : args.length + L.length < b.arity) : applyFn (n + 1) v args = .ok (.part v args []) := by
  cases h with
  | base =>
    have hv : b.variadic = none := by rcases hv with hv | hv; exact hv; simp [depth] at hv
    simp only [List.length_nil, Nat.add_zero] at hl
    have h1 : ¬ args.length > b.arity := by omega
    have h2 : (args.length == b.arity) = false := by simp; omega
    simp [applyFn, want_nonvar hv, h1, h2]
  | part hg hlt =>
    rename_i g Lg bs
    obtain ⟨ha, hle⟩ := hg.arity
    simp only [List.length_append] at hl
    have h1 : (args.length + bs.length == b.arity - Lg.length) = false := by simp; omega
    have h2 : args.length + bs.length < b.arity - Lg.length := by omega
    simp [applyFn, ha, h1, h2]

theorem chain_gt {v : Val} {b : Builtin} {L args : List Val} (n : Nat) (h : FnLike v b L)
    (hv : b.variadic = none ∨ 0 < depth v)
    (hl : args.length + L.length > b.arity) : applyFn (n + 1) v args = .error .error := by
  cases h with
  | base =>
    have hv : b.variadic = none := by rcases hv with hv | hv; exact hv; simp [depth] at hv
    simp only [List.length_nil, Nat.add_zero] at hl
    simp [applyFn, want_nonvar hv, hl]
  | part hg hlt =>
    rename_i g Lg bs
    obtain ⟨ha, hle⟩ := hg.arity
    simp only [List.length_append] at hl
    have h1 : (args.length + bs.length == b.arity - Lg.length) = false := by simp; omega
    have h2 : ¬ args.length + bs.length < b.arity - Lg.length := by omega
    simp [applyFn, ha, h1, h2]

theorem chain_eq : ∀ {v : Val} {b : Builtin} {L : List Val} (n : Nat) (args : List Val), FnLike v b L →
    args.length + L.length = b.arity → applyFn (n + depth v) v args = applyFn n (.builtin b) (args ++ L)
  | _, _, _, n, args, .base b, _ => by simp [depth]
  | _, _, _, n, args, .part (b := b) (g := g) (L := Lg) (bs := bs) hg hlt, hl => by
    obtain ⟨ha, hle⟩ := hg.arity
    simp only [List.length_append] at hl
    have h1 : (args.length + bs.length == b.arity - Lg.length) = true := by simp; omega
    have e : n + depth (.part g bs []) = (n + depth g) + 1 := by simp [depth]; omega
    rw [e]
    simp only [applyFn, ha, h1, if_true]
    rw [chain_eq n (args ++ bs) hg (by simp only [List.length_append]; omega), List.append_assoc]

theorem chain_fuel : ∀ {v : Val} {b : Builtin} {L : List Val} (n : Nat) (args : List Val), FnLike v b L →
    args.length + L.length = b.arity → n ≤ depth v → applyFn n v args = .error .fuel
  | _, _, _, 0, _, _, _, _ => by simp [applyFn]
  | _, _, _, n + 1, args, .base b, _, hn => by simp [depth] at hn
  | _, _, _, n + 1, args, .part (b := b) (g := g) (L := Lg) (bs := bs) hg hlt, hl, hn => by
    obtain ⟨ha, hle⟩ := hg.arity
    simp only [List.length_append] at hl
    have h1 : (args.length + bs.length == b.arity - Lg.length) = true := by simp; omega
    simp only [applyFn, ha, h1, if_true]
    exact chain_fuel n (args ++ bs) hg (by simp only [List.length_append]; omega) (by simp [depth] at hn; omega)

/-- the contract at one fuel level -/
def ApplySim (j : Nat) : Prop :=
  ∀ (v' v : Val) (args' args : List Val), Sim v' v → v.isCallable = true → Sims args' args →
    applyFn j v args ≠ .error .fuel → ResSim (applyFn j v' args') (applyFn j v args)

theorem builtin_sim (j : Nat) (IH : ApplySim j) (b : Builtin) (xs' xs : List Val) (hx : Sims xs' xs)
    (hne : applyFn (j + 1) (.builtin b) xs ≠ .error .fuel) :
    ResSim (applyFn (j + 1) (.builtin b) xs') (applyFn (j + 1) (.builtin b) xs) := by
  have hlen := Sims_length hx
  simp only [applyFn, hlen] at hne ⊢
  by_cases h1 : xs.length > b.want xs.length
  · simp [h1, ResSim]
  · simp only [h1, if_false] at hne ⊢
    by_cases h2 : xs.length = b.want xs.length
    · have h2' : (xs.length == b.want xs.length) = true := by simpa using h2
      simp only [h2', if_true] at hne ⊢
      have cr := convertAll_sim (ts := b.paramsAt xs.length) hx
      cases hc' : convertAll (b.paramsAt xs.length) xs' with
      | error e' =>
        cases hc : convertAll (b.paramsAt xs.length) xs with
        | error e => simp only [hc, hc', ResSims] at cr; simp [ResSim, cr]
        | ok _ => simp [hc, hc', ResSims] at cr
      | ok cs' =>
        cases hc : convertAll (b.paramsAt xs.length) xs with
        | error e => simp [hc, hc', ResSims] at cr
        | ok cs =>
          simp only [hc, hc', ResSims] at cr
          have sr := step_sim (b := b) cr
          simp only [hc] at hne
          cases hs' : b.step cs' with
          | value v' =>
            cases hs : b.step cs with
            | value v => simp only [hs, hs', StepSim] at sr; simp only [hs, hs', ResSim]; exact sr
            | fail => simp [hs, hs', StepSim] at sr
            | tail _ _ => simp [hs, hs', StepSim] at sr
          | fail =>
            cases hs : b.step cs with
            | value v => simp [hs, hs', StepSim] at sr
            | fail => simp [hs, hs', ResSim]
            | tail _ _ => simp [hs, hs', StepSim] at sr
          | tail g' ys' =>
            cases hs : b.step cs with
            | value v => simp [hs, hs', StepSim] at sr
            | fail => simp [hs, hs', StepSim] at sr
            | tail g ys =>
              simp only [hs, hs', StepSim] at sr
              simp only [hs] at hne
              simp only [hs, hs']
              have hgc := B6.Lemmas.VMLambda.step_tail_callable' hc hs
              exact IH g' g ys' ys sr.1 hgc sr.2 hne
    · have h3 : (xs.length == b.want xs.length) = false := by simpa using h2
      simp only [h3, Bool.false_eq_true, if_false, ResSim]
      have hlt : xs.length < b.arity := lt_arity_of_lt_want (by omega)
      exact .fn (.part (L := []) (.base b) (by simpa [hlen] using hlt)) (.part (L := []) (.base b) (by simpa using hlt))
        (Sims_append hx .nil) (Nat.le_refl _) (fun _ => rfl)

theorem apply_sim : ∀ (n : Nat), ApplySim n := by
  intro n
  induction n using Nat.strongRecOn with
  | _ n ih =>
    intro v' v args' args hs hc ha hne
    cases n with
    | zero => simp [applyFn] at hne
    | succ k =>
      have hfn : ∃ b L' L, FnLike v' b L' ∧ FnLike v b L ∧ Sims L' L ∧ depth v' ≤ depth v ∧
          (b.variadic.isSome = true → depth v = depth v') := by
        cases hs with
        | fn f1 f2 fs fd fv => exact ⟨_, _, _, f1, f2, fs, fd, fv⟩
        | _ => simp [Val.isCallable] at hc
      obtain ⟨b, L', L, f1, f2, fs, fd, fv⟩ := hfn
      have hl := Sims_length fs
      have hal := Sims_length ha
      by_cases hdir : b.variadic.isSome = true ∧ depth v = 0
      · -- a variadic builtin itself on both sides
        have hd' : depth v' = 0 := by have := fv hdir.1; omega
        obtain ⟨rfl, rfl⟩ := f2.depth_zero hdir.2
        obtain ⟨rfl, rfl⟩ := f1.depth_zero hd'
        exact builtin_sim k (ih k (by omega)) b args' args ha hne
      have hv2 : b.variadic = none ∨ 0 < depth v := by
        cases hvv : b.variadic with
        | none => exact Or.inl rfl
        | some t =>
          refine Or.inr ?_
          have : ¬ depth v = 0 := fun h0 => hdir ⟨by simp [hvv], h0⟩
          omega
      have hv1 : b.variadic = none ∨ 0 < depth v' := by
        cases hvv : b.variadic with
        | none => exact Or.inl rfl
        | some t =>
          refine Or.inr ?_
          have h1 := fv (by simp [hvv])
          have : ¬ depth v = 0 := fun h0 => hdir ⟨by simp [hvv], h0⟩
          omega
      rcases Nat.lt_trichotomy (args.length + L.length) b.arity with hlt | heq | hgt
      · rw [chain_lt k f1 hv1 (by omega), chain_lt k f2 hv2 hlt]
        exact .fn (.part f1 (by omega)) (.part f2 hlt) (Sims_append ha fs) (by simp only [depth]; omega)
          (fun hh => by simp only [depth]; have := fv hh; omega)
      · by_cases hk : k + 1 ≤ depth v
        · exact absurd (chain_fuel (k + 1) args f2 heq hk) hne
        · have e2 : k + 1 = (k - depth v + 1) + depth v := by omega
          have e1 : k + 1 = (k - depth v' + 1) + depth v' := by omega
          have eR : applyFn (k + 1) v args = applyFn (k - depth v + 1) (.builtin b) (args ++ L) := by
            rw [e2]; exact chain_eq _ args f2 heq
          have eL : applyFn (k + 1) v' args' = applyFn (k - depth v' + 1) (.builtin b) (args' ++ L') := by
            rw [e1]; exact chain_eq _ args' f1 (by omega)
          rw [eR] at hne ⊢
          rw [eL]
          have hb := builtin_sim (k - depth v) (ih (k - depth v) (by omega)) b (args' ++ L') (args ++ L)
            (Sims_append ha fs) hne
          have e3 : k - depth v' + 1 = (k - depth v + 1) + (depth v - depth v') := by omega
          rw [e3, applyFn_mono_add _ _ _ _ (hb.ne_fuel hne)]
          exact hb
      · rw [chain_gt k f1 hv1 (by omega), chain_gt k f2 hv2 hgt]
        simp [ResSim]


/-! ### expressions (closed, evaluated in the empty environment) -/

theorem evalWith_call_nil (app : Val → List Val → Res Val) (f : Expr) (args : List Expr) (p : Bool) :
    evalWith app [] (.call f args p) =
      match evalArgs app [] args with
      | .error e => .error e
      | .ok vs => match evalWith app [] f with
        | .error e => .error e
        | .ok fv => if fv.isCallable then app fv vs else .error .error := by
  rw [evalWith]
  cases evalArgs app [] args with
  | error e => rfl
  | ok vs =>
    cases f with
    | sym s =>
      simp only [evalWith, List.lookup]
      cases Builtin.ofName s <;> simp [Val.isCallable]
    | lit l => cases l <;> simp [evalWith, Lit.toVal, Val.isCallable]
    | lam ps b => rfl
    | call g gargs q => rfl

def ESim (e' e : Expr) : Prop :=
  ∀ n, evalWith (applyFn n) [] e ≠ .error .fuel → ResSim (evalWith (applyFn n) [] e') (evalWith (applyFn n) [] e)

def ESims (as' as : List Expr) : Prop :=
  ∀ n, evalArgs (applyFn n) [] as ≠ .error .fuel → ResSims (evalArgs (applyFn n) [] as') (evalArgs (applyFn n) [] as)

theorem ESim.trans {a b c : Expr} (h1 : ESim a b) (h2 : ESim b c) : ESim a c := by
  intro n hne
  have r2 := h2 n hne
  exact (h1 n (r2.ne_fuel hne)).trans r2

theorem ESims.nil : ESims [] [] := by
  intro n _; simp [evalArgs, ResSims]; exact .nil

theorem ESims.cons {a' a : Expr} {as' as : List Expr} (h1 : ESim a' a) (h2 : ESims as' as) :
    ESims (a' :: as') (a :: as) := by
  intro n hne
  have e1 := h1 n
  have e2 := h2 n
  rw [evalArgs] at hne ⊢
  rw [evalArgs]
  cases ha : evalWith (applyFn n) [] a with
  | error e =>
    rw [ha] at hne e1
    simp only at hne
    have := e1 (by intro hh; injection hh with hh; subst hh; exact hne rfl)
    cases ha' : evalWith (applyFn n) [] a' with
    | error e' => simp [ha', ResSim] at this; simp [ResSims, this]
    | ok _ => simp [ha', ResSim] at this
  | ok v =>
    rw [ha] at hne e1
    have := e1 (by simp)
    cases ha' : evalWith (applyFn n) [] a' with
    | error e' => simp [ha', ResSim] at this
    | ok v' =>
      simp only [ha', ResSim] at this
      simp only at hne ⊢
      cases hs : evalArgs (applyFn n) [] as with
      | error e =>
        rw [hs] at hne e2
        simp only at hne
        have r2 := e2 hne
        cases hs' : evalArgs (applyFn n) [] as' with
        | error e' => simp [hs', ResSims] at r2; simp [ResSims, r2]
        | ok _ => simp [hs', ResSims] at r2
      | ok vs =>
        rw [hs] at e2
        have r2 := e2 (by simp)
        cases hs' : evalArgs (applyFn n) [] as' with
        | error e' => simp [hs', ResSims] at r2
        | ok vs' =>
          simp only [hs', ResSims] at r2
          simp only [ResSims]
          exact .cons this r2

theorem ESim.call {F f : Expr} {as' as : List Expr} (p' p : Bool) (hf : ESim F f) (ha : ESims as' as) :
    ESim (.call F as' p') (.call f as p) := by
  intro n hne
  have ea := ha n
  have ef := hf n
  rw [evalWith_call_nil] at hne ⊢
  rw [evalWith_call_nil]
  cases hs : evalArgs (applyFn n) [] as with
  | error e =>
    rw [hs] at hne ea
    simp only at hne
    have r := ea (by intro hh; injection hh with hh; subst hh; exact hne rfl)
    cases hs' : evalArgs (applyFn n) [] as' with
    | error e' => simp [hs', ResSims] at r; simp [ResSim, r]
    | ok _ => simp [hs', ResSims] at r
  | ok vs =>
    rw [hs] at hne ea
    have r := ea (by simp)
    cases hs' : evalArgs (applyFn n) [] as' with
    | error e' => simp [hs', ResSims] at r
    | ok vs' =>
      simp only [hs', ResSims] at r
      simp only at hne ⊢
      cases hfv : evalWith (applyFn n) [] f with
      | error e =>
        rw [hfv] at hne ef
        simp only at hne
        have rf := ef hne
        cases hfv' : evalWith (applyFn n) [] F with
        | error e' => simp [hfv', ResSim] at rf; simp [ResSim, rf]
        | ok _ => simp [hfv', ResSim] at rf
      | ok fv =>
        rw [hfv] at hne ef
        have rf := ef (by simp)
        cases hfv' : evalWith (applyFn n) [] F with
        | error e' => simp [hfv', ResSim] at rf
        | ok fv' =>
          simp only [hfv', ResSim] at rf
          simp only at hne ⊢
          rw [rf.callable]
          cases hc : fv.isCallable with
          | false => simp [ResSim]
          | true =>
            simp only [hc, if_true] at hne ⊢
            exact apply_sim n fv' fv vs' vs rf hc r hne

/-! ### the rewrites -/

theorem ESim.sym (s : String) : ESim (.sym s) (.sym s) := by
  intro n _
  simp only [evalWith, List.lookup]
  cases Builtin.ofName s with
  | none => simp [ResSim]
  | some b => exact Sim.refl_builtin b

theorem Sim.refl_lit (l : Lit) : Sim l.toVal l.toVal := by
  cases l <;> simp only [Lit.toVal]
  · exact .int _
  · exact .str _
  · exact .query rfl
  · exact .other _ _

theorem ESim.lit (l : Lit) : ESim (.lit l) (.lit l) := by
  intro n _
  simp only [evalWith, ResSim]
  exact Sim.refl_lit l

theorem ESim.noarg {s : String} {b : Builtin} (p : Bool) (hb : Builtin.ofName s = some b) (hv : b.variadic = none)
    (ha : b.arity > 0) :
    ESim (.sym s) (.call (.sym s) [] p) := by
  intro n hne
  cases n with
  | zero => simp [evalWith, evalArgs, hb, applyFn] at hne
  | succ k =>
    have e : evalWith (applyFn (k + 1)) [] (.call (.sym s) [] p) = .ok (.part (.builtin b) [] []) := by
      simp only [evalWith, evalArgs, hb]
      exact chain_lt k (.base b) (Or.inl hv) (by simpa using ha)
    rw [e]
    simp only [evalWith, List.lookup, hb, ResSim]
    exact .fn (.base b) (.part (L := []) (.base b) (by simpa using ha)) .nil (by simp [depth]) (fun hh => by simp [hv] at hh)

theorem canonInter_append : ∀ (a b : List Query), canonInter (a ++ b) = canonInter a ++ canonInter b
  | [], b => by simp [canonInter]
  | q :: a, b => by simp [canonInter, canonInter_append a b]

theorem canonUnion_append : ∀ (a b : List Query), canonUnion (a ++ b) = canonUnion a ++ canonUnion b
  | [], b => by simp [canonUnion]
  | q :: a, b => by simp [canonUnion, canonUnion_append a b]

mutual
  theorem canon_simplifyQuery : (q : Query) → (simplifyQuery q).canon = q.canon
    | .inter qs => by simp only [simplifyQuery, Query.canon, canon_flattenInter qs]
    | .union qs => by simp only [simplifyQuery, Query.canon, canon_flattenUnion qs]
    | .typed _ _ => by simp [simplifyQuery]
    | .keyed _ => by simp [simplifyQuery]
    | .tagged _ _ => by simp [simplifyQuery]
    | .other _ => by simp [simplifyQuery]
  theorem canon_flattenInter : (qs : List Query) → canonInter (flattenInter qs) = canonInter qs
    | [] => by simp [flattenInter]
    | q :: qs => by
      have h1 := canon_simplifyQuery q
      have h2 := canon_flattenInter qs
      simp only [flattenInter, canonInter_append, h2, canonInter]
      congr 1
      rw [← h1]
      cases simplifyQuery q <;> simp [Query.canon, canonInter]
  theorem canon_flattenUnion : (qs : List Query) → canonUnion (flattenUnion qs) = canonUnion qs
    | [] => by simp [flattenUnion]
    | q :: qs => by
      have h1 := canon_simplifyQuery q
      have h2 := canon_flattenUnion qs
      simp only [flattenUnion, canonUnion_append, h2, canonUnion]
      congr 1
      rw [← h1]
      cases simplifyQuery q <;> simp [Query.canon, canonUnion]
end

theorem ESim.litq (q : Query) : ESim (.lit (.query (simplifyQuery q))) (.lit (.query q)) := by
  intro n _
  simp only [evalWith, Lit.toVal, ResSim]
  exact .query (canon_simplifyQuery q)

end B6.Lemmas.SimplifyFO
