import B6.Model.FeatureHeap
/-!
Helper lemmas for C38 (`B6.Props.C38`): ownership / frame reasoning on the feature heap model.
Core Lean only.

`Step F st st' F'` — "an operation whose footprint was `F` took the store from `st` to `st'` and its
footprint became `F'`": the store only grew, every existing array outside `F` is untouched, `F'` consists
of arrays of `F` and freshly allocated ones, and `F'` is allocated in `st'`.
-/
namespace B6.Lemmas.FeatureHeap
open B6.Model.FeatureHeap

structure Step (F : List Nat) (st st' : Store) (F' : List Nat) : Prop where
  grow : st.length ≤ st'.length
  frame : ∀ a, a < st.length → a ∉ F → st'[a]? = st[a]?
  sub : ∀ a ∈ F', a ∈ F ∨ st.length ≤ a
  valid : ∀ a ∈ F', a < st'.length

theorem Step.refl {F : List Nat} {st : Store} (hv : ∀ a ∈ F, a < st.length) : Step F st st F :=
  ⟨Nat.le_refl _, fun _ _ _ => rfl, fun _ h => Or.inl h, hv⟩

/-- sequencing: the second operation works on arrays the first one owned or produced -/
theorem Step.seq {F F1 G G2 : List Nat} {st st1 st2 : Store}
    (h1 : Step F st st1 F1) (h2 : Step G st1 st2 G2) (hG : ∀ a ∈ G, a ∈ F ∨ a ∈ F1) :
    Step F st st2 (F1 ++ G2) := by
  refine ⟨Nat.le_trans h1.grow h2.grow, ?_, ?_, ?_⟩
  · intro a ha hF
    have hG' : a ∉ G := by
      intro hg
      rcases hG a hg with h | h
      · exact hF h
      · rcases h1.sub a h with h | h
        · exact hF h
        · omega
    rw [h2.frame a (Nat.lt_of_lt_of_le ha h1.grow) hG', h1.frame a ha hF]
  · intro a ha
    rcases List.mem_append.mp ha with h | h
    · exact h1.sub a h
    · rcases h2.sub a h with h | h
      · rcases hG a h with h | h
        · exact Or.inl h
        · exact h1.sub a h
      · exact Or.inr (Nat.le_trans h1.grow h)
  · intro a ha
    rcases List.mem_append.mp ha with h | h
    · exact Nat.lt_of_lt_of_le (h1.valid a h) h2.grow
    · exact h2.valid a h

theorem Step.weaken {F F' F'' : List Nat} {st st' : Store} (h : Step F st st' F')
    (hs : ∀ a ∈ F'', a ∈ F') : Step F st st' F'' :=
  ⟨h.grow, h.frame, fun a ha => h.sub a (hs a ha), fun a ha => h.valid a (hs a ha)⟩

theorem Step.mono_left {F G F' : List Nat} {st st' : Store} (h : Step F st st' F')
    (hs : ∀ a ∈ F, a ∈ G) : Step G st st' F' :=
  ⟨h.grow, fun a ha hG => h.frame a ha (fun hF => hG (hs a hF)),
   fun a ha => (h.sub a ha).imp (hs a) id, h.valid⟩

/-! ### store primitives -/

theorem getElem?_alloc_old (st : Store) (cs : List Cell) {a : Nat} (ha : a < st.length) :
    (alloc st cs).1[a]? = st[a]? := by
  simp [alloc, List.getElem?_append_left ha]

theorem alloc_length (st : Store) (cs : List Cell) : (alloc st cs).1.length = st.length + 1 := by
  simp [alloc]

theorem alloc_addr (st : Store) (cs : List Cell) : (alloc st cs).2.addr = st.length := rfl

theorem alloc_step (st : Store) (cs : List Cell) :
    Step [] st (alloc st cs).1 [(alloc st cs).2.addr] := by
  refine ⟨by simp [alloc], fun a ha _ => getElem?_alloc_old st cs ha, ?_, ?_⟩
  · intro a ha
    simp [alloc] at ha
    exact Or.inr (by omega)
  · intro a ha
    simp [alloc] at ha ⊢
    omega

theorem allocCap_step (st : Store) (cs pad : List Cell) :
    Step [] st (allocCap st cs pad).1 [(allocCap st cs pad).2.addr] := by
  refine ⟨by simp [allocCap], fun a ha _ => by simp [allocCap, List.getElem?_append_left ha], ?_, ?_⟩
  · intro a ha
    simp [allocCap] at ha
    exact Or.inr (by omega)
  · intro a ha
    simp [allocCap] at ha ⊢
    omega

theorem set_step {st : Store} {a : Nat} {arr : List Cell} (ha : a < st.length) :
    Step [a] st (st.set a arr) [a] := by
  refine ⟨by simp, ?_, fun x hx => Or.inl hx, ?_⟩
  · intro b _ hb
    have : a ≠ b := fun e => hb (by simp [e])
    simp [List.getElem?_set_ne this]
  · intro x hx
    have : x = a := by simpa using hx
    simp [this, ha]

theorem lt_of_getElem?_some {st : Store} {a : Nat} {arr : List Cell} (h : st[a]? = some arr) :
    a < st.length := by
  rcases Nat.lt_or_ge a st.length with h' | h'
  · exact h'
  · rw [List.getElem?_eq_none h'] at h; cases h

theorem write_step {st st' : Store} {s : Option Slice} {i : Nat} {c : Cell}
    (h : write st s i c = some st') : Step (addrs s) st st' (addrs s) := by
  unfold write at h
  cases s with
  | none => cases h
  | some s =>
    simp only at h
    cases harr : st[s.addr]? with
    | none => rw [harr] at h; cases h
    | some arr =>
      rw [harr] at h
      simp only at h
      split at h
      · cases h
        exact set_step (lt_of_getElem?_some harr)
      · cases h

theorem append_step {st st' : Store} {s s' : Option Slice} {cs : List Cell}
    (h : append st s cs = some (st', s')) : Step (addrs s) st st' (addrs s') := by
  unfold append at h
  cases s with
  | none =>
    simp only at h
    split at h
    · cases h
      exact Step.refl (by simp [addrs])
    · cases h
      exact alloc_step st cs
  | some s =>
    simp only at h
    cases harr : st[s.addr]? with
    | none => rw [harr] at h; cases h
    | some arr =>
      rw [harr] at h
      simp only at h
      split at h
      · split at h
        · cases h
          exact set_step (lt_of_getElem?_some harr)
        · cases h
          exact (allocCap_step st (arr.take s.len ++ cs) _).mono_left (by simp)
      · cases h

theorem mergeInto_step {st st' : Store} {d d' : Option Slice} {src : List Cell}
    (h : mergeInto st d src = some (st', d')) : Step (addrs d) st st' (addrs d') := by
  unfold mergeInto at h
  cases d with
  | none => exact append_step h
  | some d =>
    simp only at h
    cases harr : st[d.addr]? with
    | none => rw [harr] at h; cases h
    | some arr =>
      rw [harr] at h
      simp only at h
      have hlt := lt_of_getElem?_some harr
      split at h
      · split at h
        · have h1 : Step [d.addr] st (st.set d.addr
              (src.take (min d.len src.length) ++ arr.drop (min d.len src.length))) [d.addr] :=
            set_step hlt
          have h2 := append_step h
          exact (h1.seq h2 (by simp [addrs])).weaken (fun a ha => List.mem_append_right _ ha)
        · cases h
          exact set_step hlt
      · cases h

theorem cloneMake_step {st st' : Store} {s s' : Option Slice}
    (h : cloneMake st s = some (st', s')) : Step [] st st' (addrs s') := by
  unfold cloneMake at h
  cases hc : cells st s with
  | none => rw [hc] at h; cases h
  | some cs =>
    rw [hc] at h
    cases h
    exact alloc_step st cs

theorem cloneKeepNil_step {st st' : Store} {s s' : Option Slice}
    (h : cloneKeepNil st s = some (st', s')) : Step [] st st' (addrs s') := by
  unfold cloneKeepNil at h
  cases s with
  | none => cases h; exact Step.refl (by simp)
  | some s => exact cloneMake_step h

/-! ### tag operations -/

theorem tagsSet_step {st st' : Store} {t t' : Option Slice} {k v : String}
    (h : tagsSet st t k v = some (st', t')) : Step (addrs t) st st' (addrs t') := by
  unfold tagsSet at h
  cases hc : cells st t with
  | none => rw [hc] at h; cases h
  | some cs =>
    rw [hc] at h
    simp only at h
    cases hk : findKey k cs with
    | none => rw [hk] at h; exact append_step h
    | some i =>
      rw [hk] at h
      simp only at h
      cases hw : write st t i (.pair k v) with
      | none => rw [hw] at h; cases h
      | some st1 =>
        rw [hw] at h
        cases h
        exact write_step hw

theorem tagsRemove_step {st st' : Store} {t t' : Option Slice} {k : String}
    (h : tagsRemove st t k = some (st', t')) : Step (addrs t) st st' (addrs t') := by
  unfold tagsRemove at h
  cases t with
  | none => cases h; exact Step.refl (by simp [addrs])
  | some s =>
    simp only at h
    cases harr : st[s.addr]? with
    | none => rw [harr] at h; cases h
    | some arr =>
      rw [harr] at h
      simp only at h
      cases hp : keyedIdx arr 0 with
      | none => rw [hp] at h; cases h
      | some back =>
        rw [hp] at h
        simp only at h
        split at h
        · cases hr : (B6.Model.Tags.GoSlice.mk back s.len).removeTag k with
          | none => rw [hr] at h; cases h
          | some g =>
            rw [hr] at h
            simp only at h
            cases hd : decodeAll arr g.back with
            | none => rw [hd] at h; cases h
            | some cs =>
              rw [hd] at h
              cases h
              exact set_step (lt_of_getElem?_some harr)
        · cases h

theorem tagsRemoveMany_step {ks : List String} : ∀ {st st' : Store} {t t' : Option Slice},
    tagsRemoveMany st t ks = some (st', t') → (∀ a ∈ addrs t, a < st.length) →
    Step (addrs t) st st' (addrs t') := by
  induction ks with
  | nil =>
    intro st st' t t' h hv
    cases h
    exact Step.refl hv
  | cons k ks ih =>
    intro st st' t t' h hv
    unfold tagsRemoveMany at h
    cases hr : tagsRemove st t k with
    | none => rw [hr] at h; cases h
    | some r =>
      rw [hr] at h
      simp only at h
      have h1 := tagsRemove_step (t' := r.2) (st' := r.1) (by rw [hr])
      have h2 := ih h h1.valid
      exact (h1.seq h2 (fun a ha => Or.inr ha)).weaken (fun a ha => List.mem_append_right _ ha)

/-! ### footprints of features -/

theorem mem_fp {f : Feat} {a : Nat} : a ∈ fp f ↔
    a ∈ addrs f.tags ∨ a ∈ addrs f.polygons ∨ a ∈ addrs f.members ∨ a ∈ addrs f.keys
      ∨ a ∈ addrs f.values ∨ ∃ s ∈ f.ids, a ∈ addrs s := by
  simp [fp, List.mem_flatMap]

/-- every array the feature points into is allocated -/
def Valid (st : Store) (f : Feat) : Prop := ∀ a ∈ fp f, a < st.length

instance (st : Store) (f : Feat) : Decidable (Valid st f) := by unfold Valid; infer_instance

/-- from a step of one of the feature's slices to a step of the feature -/
theorem lift_step {f f' : Feat} {st st' : Store} {G G' : List Nat} (hv : Valid st f)
    (h : Step G st st' G') (hG : ∀ a ∈ G, a ∈ fp f) (hf' : ∀ a ∈ fp f', a ∈ fp f ∨ a ∈ G') :
    Step (fp f) st st' (fp f') :=
  ((Step.refl hv).seq h (fun a ha => Or.inl (hG a ha))).weaken (fun a ha => by
    rcases hf' a ha with h | h
    · exact List.mem_append_left _ h
    · exact List.mem_append_right _ h)

/-- closes `a ∈ fp f' → a ∈ fp f ∨ a ∈ G'` when `f'` differs from `f` in non-`ids` fields -/
macro "fp_tac" : tactic =>
  `(tactic| (intro a ha; simp only [mem_fp] at ha ⊢; rcases ha with h | h | h | h | h | h <;> first | (simp [h]; done) | (simp [addrs] at h; simp [h, addrs])))

theorem mem_ids_set {l : List (Option Slice)} {i : Nat} {x s : Option Slice}
    (h : s ∈ l.set i x) : s ∈ l ∨ s = x := List.mem_or_eq_of_mem_set h

theorem fp_ids_set {f : Feat} {i : Nat} {x : Option Slice} {a : Nat}
    (h : a ∈ fp { f with ids := f.ids.set i x }) : a ∈ fp f ∨ a ∈ addrs x := by
  simp only [mem_fp] at h ⊢
  rcases h with h | h | h | h | h | ⟨s, hs, ha⟩
  · simp [h]
  · simp [h]
  · simp [h]
  · simp [h]
  · simp [h]
  · rcases mem_ids_set hs with h | rfl
    · exact Or.inl (Or.inr (Or.inr (Or.inr (Or.inr (Or.inr ⟨s, h, ha⟩)))))
    · exact Or.inr ha

theorem mutate_step {st st' : Store} {f f' : Feat} {m : Mut}
    (h : mutate st f m = some (st', f')) (hv : Valid st f) : Step (fp f) st st' (fp f') := by
  cases m with
  | setID id =>
    simp only [mutate, Option.some.injEq, Prod.mk.injEq] at h
    obtain ⟨rfl, rfl⟩ := h
    exact (Step.refl hv).weaken (by intro a ha; simpa [mem_fp] using ha)
  | setTags lit =>
    simp only [mutate, Option.some.injEq, Prod.mk.injEq] at h
    obtain ⟨rfl, rfl⟩ := h
    exact lift_step hv (alloc_step st _) (by simp) (by fp_tac)
  | addTag k v =>
    simp only [mutate, Option.map_eq_some_iff] at h
    obtain ⟨r, hr, he⟩ := h
    cases he
    exact lift_step hv (append_step (st' := r.1) (s' := r.2) hr) (by intro a ha; simp [mem_fp, ha])
      (by fp_tac)
  | setTag k v =>
    simp only [mutate, Option.map_eq_some_iff] at h
    obtain ⟨r, hr, he⟩ := h
    cases he
    exact lift_step hv (tagsSet_step (st' := r.1) (t' := r.2) hr) (by intro a ha; simp [mem_fp, ha])
      (by fp_tac)
  | rmTag k =>
    simp only [mutate, Option.map_eq_some_iff] at h
    obtain ⟨r, hr, he⟩ := h
    cases he
    exact lift_step hv (tagsRemove_step (st' := r.1) (t' := r.2) hr) (by intro a ha; simp [mem_fp, ha])
      (by fp_tac)
  | rmTags ks =>
    simp only [mutate, Option.map_eq_some_iff] at h
    obtain ⟨r, hr, he⟩ := h
    cases he
    have hsub : ∀ a ∈ addrs f.tags, a ∈ fp f := by intro a ha; simp [mem_fp, ha]
    exact lift_step hv (tagsRemoveMany_step (st' := r.1) (t' := r.2) hr (fun a ha => hv a (hsub a ha)))
      hsub (by fp_tac)
  | rmAllTags =>
    simp only [mutate, Option.some.injEq, Prod.mk.injEq] at h
    obtain ⟨rfl, rfl⟩ := h
    exact lift_step hv (alloc_step st _) (by simp) (by fp_tac)
  | setPathIDs i lit =>
    simp only [mutate] at h
    split at h
    · cases h
    · simp only [Option.map_eq_some_iff] at h
      obtain ⟨st2, hw, he⟩ := h
      cases he
      have s1 := (Step.refl hv).seq (alloc_step st (lit.map Cell.scalar)) (by simp)
      have s2 := s1.seq (write_step hw) (fun a ha => Or.inl (by simp [mem_fp, ha]))
      refine s2.weaken (fun a ha => ?_)
      rcases fp_ids_set ha with h | h
      · simp [h]
      · simp [addrs] at h; simp [h]
  | setPathID i j id =>
    simp only [mutate] at h
    split at h
    · cases h
    · cases hcur : f.ids[i]? with
      | none => rw [hcur] at h; cases h
      | some cur =>
        rw [hcur] at h
        simp only at h
        cases hg : append st cur (List.replicate (j + 1 - slen cur) (Cell.scalar invalidID)) with
        | none => rw [hg] at h; cases h
        | some g =>
          rw [hg] at h
          simp only at h
          cases hw1 : write g.1 g.2 j (.scalar id) with
          | none => rw [hw1] at h; cases h
          | some st1 =>
            rw [hw1] at h
            simp only [Option.map_eq_some_iff] at h
            obtain ⟨st2, hw2, he⟩ := h
            cases he
            have hmem : cur ∈ f.ids := List.mem_of_getElem? hcur
            have s1 := (Step.refl hv).seq (append_step (st' := g.1) (s' := g.2) hg)
              (fun a ha => Or.inl (mem_fp.mpr (Or.inr (Or.inr (Or.inr (Or.inr (Or.inr ⟨cur, hmem, ha⟩)))))))
            have s2 := s1.seq (write_step hw1) (fun a ha => Or.inr (List.mem_append_right _ ha))
            have s3 := s2.seq (write_step hw2) (fun a ha => Or.inl (by simp [mem_fp, ha]))
            refine s3.weaken (fun a ha => ?_)
            rcases fp_ids_set ha with h | h
            · simp [h]
            · simp [h]
  | setPolygon i p =>
    simp only [mutate] at h
    split at h
    · cases h
    · simp only [Option.map_eq_some_iff] at h
      obtain ⟨st2, hw, he⟩ := h
      cases he
      have s1 := (Step.refl hv).seq (write_step hw) (fun a ha => Or.inl (by simp [mem_fp, ha]))
      refine s1.weaken (fun a ha => ?_)
      rcases fp_ids_set ha with h | h
      · simp [h]
      · simp [addrs] at h
  | setMember i id role =>
    simp only [mutate] at h
    split at h
    · cases h
    · simp only [Option.map_eq_some_iff] at h
      obtain ⟨st2, hw, he⟩ := h
      cases he
      exact lift_step hv (write_step hw) (by intro a ha; simp [mem_fp, ha]) (by intro a ha; exact Or.inl ha)
  | appendMember id role =>
    simp only [mutate] at h
    split at h
    · cases h
    · simp only [Option.map_eq_some_iff] at h
      obtain ⟨r, hr, he⟩ := h
      cases he
      exact lift_step hv (append_step (st' := r.1) (s' := r.2) hr) (by intro a ha; simp [mem_fp, ha])
        (by fp_tac)
  | setKey i k =>
    simp only [mutate] at h
    split at h
    · cases h
    · simp only [Option.map_eq_some_iff] at h
      obtain ⟨st2, hw, he⟩ := h
      cases he
      exact lift_step hv (write_step hw) (by intro a ha; simp [mem_fp, ha]) (by intro a ha; exact Or.inl ha)
  | setValue i v =>
    simp only [mutate] at h
    split at h
    · cases h
    · simp only [Option.map_eq_some_iff] at h
      obtain ⟨st2, hw, he⟩ := h
      cases he
      exact lift_step hv (write_step hw) (by intro a ha; simp [mem_fp, ha]) (by intro a ha; exact Or.inl ha)
  | appendKV k v =>
    simp only [mutate] at h
    split at h
    · cases h
    · cases hk : append st f.keys [.scalar k] with
      | none => rw [hk] at h; cases h
      | some ks =>
        rw [hk] at h
        simp only [Option.map_eq_some_iff] at h
        obtain ⟨vs, hvs, he⟩ := h
        cases he
        have s1 := (Step.refl hv).seq (append_step (st' := ks.1) (s' := ks.2) hk)
          (fun a ha => Or.inl (by simp [mem_fp, ha]))
        have s2 := s1.seq (append_step (st' := vs.1) (s' := vs.2) hvs)
          (fun a ha => Or.inl (by simp [mem_fp, ha]))
        refine s2.weaken ?_
        intro a ha
        simp only [mem_fp] at ha
        simp only [List.mem_append, mem_fp]
        rcases ha with h | h | h | h | h | h <;> simp [h]
  | sort =>
    simp only [mutate] at h
    split at h
    · cases h
    · split at h
      · rename_i ks vs hks hvs
        split at h
        · cases h
        · cases ha : mergeInto st f.keys ((sortRows (ks.zip vs)).map (·.1)) with
          | none => rw [ha] at h; cases h
          | some a =>
            rw [ha] at h
            simp only [Option.map_eq_some_iff] at h
            obtain ⟨b, hb, he⟩ := h
            cases he
            have s1 := (Step.refl hv).seq (mergeInto_step (st' := a.1) (d' := a.2) ha)
              (fun x hx => Or.inl (by simp [mem_fp, hx]))
            have s2 := s1.seq (mergeInto_step (st' := b.1) (d' := b.2) hb)
              (fun x hx => Or.inl (by simp [mem_fp, hx]))
            refine s2.weaken ?_
            intro x hx
            simp only [mem_fp] at hx
            simp only [List.mem_append, mem_fp]
            rcases hx with h | h | h | h | h | h <;> simp [h]
      · cases h

/-- the list-value mutators: on the store they are an in-place write of one Tag struct, or an `append` -/
theorem mutateV_step {st st' : Store} {vals vals' : Vals} {f f' : Feat} {m : MutV}
    (h : mutateV st vals f m = some (st', vals', f')) (hv : Valid st f) : Step (fp f) st st' (fp f') := by
  have hsub : ∀ a ∈ addrs f.tags, a ∈ fp f := by intro a ha; simp [mem_fp, ha]
  cases m with
  | setTagAt k i e =>
    simp only [mutateV, Option.map_eq_some_iff] at h
    obtain ⟨r, hr, he⟩ := h
    cases he
    unfold tagsSetAt at hr
    cases hc : cells st f.tags with
    | none => rw [hc] at hr; cases hr
    | some cs =>
      rw [hc] at hr
      simp only at hr
      split at hr
      · split at hr
        · cases hr
        · simp only [Option.map_eq_some_iff] at hr
          obtain ⟨st2, hw, he⟩ := hr
          cases he
          exact lift_step hv (write_step hw) hsub (by intro a ha; exact Or.inl ha)
      · simp only [Option.map_eq_some_iff] at hr
        obtain ⟨a, ha, he⟩ := hr
        cases he
        exact lift_step hv (append_step (st' := a.1) (s' := a.2) ha) hsub (by fp_tac)
  | setTagList k lit spare =>
    simp only [mutateV, Option.map_eq_some_iff] at h
    obtain ⟨r, hr, he⟩ := h
    cases he
    unfold tagsSetList at hr
    simp only at hr
    cases hc : cells st f.tags with
    | none => rw [hc] at hr; cases hr
    | some cs =>
      rw [hc] at hr
      simp only at hr
      split at hr
      · simp only [Option.map_eq_some_iff] at hr
        obtain ⟨st2, hw, he⟩ := hr
        cases he
        exact lift_step hv (write_step hw) hsub (by intro a ha; exact Or.inl ha)
      · simp only [Option.map_eq_some_iff] at hr
        obtain ⟨a, ha, he⟩ := hr
        cases he
        exact lift_step hv (append_step (st' := a.1) (s' := a.2) ha) hsub (by fp_tac)

/-! ### `Clone` allocates everything it returns -/

theorem cloneInner_step {l : List (Option Slice)} : ∀ {st st' : Store} {l' : List (Option Slice)},
    cloneInner st l = some (st', l') → Step [] st st' (l'.flatMap addrs) := by
  induction l with
  | nil =>
    intro st st' l' h
    simp only [cloneInner, Option.some.injEq, Prod.mk.injEq] at h
    obtain ⟨rfl, rfl⟩ := h
    exact Step.refl (by simp)
  | cons x rest ih =>
    intro st st' l' h
    cases x with
    | none =>
      simp only [cloneInner, Option.map_eq_some_iff] at h
      obtain ⟨r, hr, he⟩ := h
      cases he
      exact (ih (st' := r.1) (l' := r.2) hr).weaken (by simp [addrs])
    | some s =>
      simp only [cloneInner] at h
      cases ha : cloneMake st (some s) with
      | none => rw [ha] at h; cases h
      | some a =>
        rw [ha] at h
        simp only [Option.map_eq_some_iff] at h
        obtain ⟨r, hr, he⟩ := h
        cases he
        have h1 := cloneMake_step (st' := a.1) (s' := a.2) ha
        have h2 := ih (st' := r.1) (l' := r.2) hr
        exact (h1.seq h2 (by simp)).weaken (by simp)

theorem cloneFeat_step {st st' : Store} {f c : Feat} (h : cloneFeat st f = some (st', c)) :
    Step [] st st' (fp c) := by
  unfold cloneFeat at h
  cases ht : cloneMake st f.tags with
  | none => rw [ht] at h; cases h
  | some t =>
    rw [ht] at h
    simp only at h
    have h1 := cloneMake_step (st' := t.1) (s' := t.2) ht
    split at h
    · cases h
      exact h1.weaken (by intro a ha; simpa [mem_fp, addrs] using ha)
    · cases hi : cloneInner t.1 f.ids with
      | none => rw [hi] at h; cases h
      | some i =>
        rw [hi] at h
        simp only at h
        cases hp : cloneMake i.1 f.polygons with
        | none => rw [hp] at h; cases h
        | some p =>
          rw [hp] at h
          cases h
          have h2 := cloneInner_step (st' := i.1) (l' := i.2) hi
          have h3 := cloneMake_step (st' := p.1) (s' := p.2) hp
          refine ((h1.seq h2 (by simp)).seq h3 (by simp)).weaken ?_
          intro a ha
          simp only [mem_fp] at ha
          simp only [List.mem_append, List.mem_flatMap]
          rcases ha with h | h | h | h | h | h <;> simp_all [addrs]
    · cases hm : cloneMake t.1 f.members with
      | none => rw [hm] at h; cases h
      | some m =>
        rw [hm] at h
        cases h
        have h2 := cloneMake_step (st' := m.1) (s' := m.2) hm
        refine (h1.seq h2 (by simp)).weaken ?_
        intro a ha
        simp only [mem_fp] at ha
        simp only [List.mem_append]
        rcases ha with h | h | h | h | h | h <;> simp_all [addrs]
    · cases hk : cloneKeepNil t.1 f.keys with
      | none => rw [hk] at h; cases h
      | some k =>
        rw [hk] at h
        simp only at h
        cases hvv : cloneKeepNil k.1 f.values with
        | none => rw [hvv] at h; cases h
        | some v =>
          rw [hvv] at h
          cases h
          have h2 := cloneKeepNil_step (st' := k.1) (s' := k.2) hk
          have h3 := cloneKeepNil_step (st' := v.1) (s' := v.2) hvv
          refine ((h1.seq h2 (by simp)).seq h3 (by simp)).weaken ?_
          intro a ha
          simp only [mem_fp] at ha
          simp only [List.mem_append]
          rcases ha with h | h | h | h | h | h <;> simp_all [addrs]

theorem fromWorld_step {st st' : Store} {w c : Feat} (h : fromWorld st w = some (st', c)) :
    Step [] st st' (fp c) := by
  unfold fromWorld at h
  cases ht : cloneMake st w.tags with
  | none => rw [ht] at h; cases h
  | some t =>
    rw [ht] at h
    simp only at h
    have h1 := cloneMake_step (st' := t.1) (s' := t.2) ht
    split at h
    · cases h
      exact h1.weaken (by intro a ha; simpa [mem_fp, addrs] using ha)
    · cases hi : cloneInner t.1 w.ids with
      | none => rw [hi] at h; cases h
      | some i =>
        rw [hi] at h
        simp only at h
        cases hp : cells i.1 w.polygons with
        | none => rw [hp] at h; cases h
        | some ps =>
          rw [hp] at h
          simp only at h
          split at h
          · cases h
          · cases h
            have h2 := cloneInner_step (st' := i.1) (l' := i.2) hi
            have h3 := alloc_step i.1 (fromWorldPolygons w.ids ps)
            refine ((h1.seq h2 (by simp)).seq h3 (by simp)).weaken ?_
            intro a ha
            simp only [mem_fp] at ha
            simp only [List.mem_append, List.mem_flatMap]
            rcases ha with h | h | h | h | h | h <;> simp_all [addrs]
    · cases hm : cloneMake t.1 w.members with
      | none => rw [hm] at h; cases h
      | some m =>
        rw [hm] at h
        cases h
        have h2 := cloneMake_step (st' := m.1) (s' := m.2) hm
        refine (h1.seq h2 (by simp)).weaken ?_
        intro a ha
        simp only [mem_fp] at ha
        simp only [List.mem_append]
        rcases ha with h | h | h | h | h | h <;> simp_all [addrs]
    · split at h
      · split at h
        · cases h
        · split at h
          · cases h
            exact h1.weaken (by intro a ha; simpa [mem_fp, addrs] using ha)
          · cases h
            rename_i ks vs _ _ _ _
            have h2 := alloc_step t.1 ks
            have h3 := alloc_step (alloc t.1 ks).1 vs
            refine ((h1.seq h2 (by simp)).seq h3 (by simp)).weaken ?_
            intro a ha
            simp only [mem_fp] at ha
            simp only [List.mem_append]
            rcases ha with h | h | h | h | h | h <;> simp_all [addrs]
      · cases h

/-! ### `MergeFrom` writes into the receiver's own arrays (or new ones) only -/

theorem growIds_step (rest : List (Option Slice)) : ∀ (st : Store) (mine : List (Option Slice)),
    ∃ news, (growIds st mine rest).2 = mine ++ news ∧
      Step [] st (growIds st mine rest).1 (news.flatMap addrs) := by
  induction rest with
  | nil => intro st mine; exact ⟨[], by simp [growIds], Step.refl (by simp)⟩
  | cons o rest ih =>
    intro st mine
    simp only [growIds]
    obtain ⟨news, h1, h2⟩ := ih (alloc st (List.replicate (slen o) (Cell.scalar "0"))).1
      (mine ++ [some (alloc st (List.replicate (slen o) (Cell.scalar "0"))).2])
    refine ⟨some (alloc st (List.replicate (slen o) (Cell.scalar "0"))).2 :: news, ?_, ?_⟩
    · rw [h1]; simp
    · exact ((alloc_step st _).seq h2 (by simp)).weaken (by simp [addrs])

theorem mergeInner_step {mine : List (Option Slice)} :
    ∀ {theirs : List (Option Slice)} {st st' : Store} {res : List (Option Slice)},
    mergeInner st mine theirs = some (st', res) →
    Step (mine.flatMap addrs) st st' (res.flatMap addrs) := by
  induction mine with
  | nil =>
    intro theirs st st' res h
    simp only [mergeInner, Option.some.injEq, Prod.mk.injEq] at h
    obtain ⟨rfl, rfl⟩ := h
    exact Step.refl (by simp)
  | cons m mine ih =>
    intro theirs st st' res h
    cases theirs with
    | nil => simp [mergeInner] at h
    | cons o theirs =>
      cases o with
      | none =>
        simp only [mergeInner, Option.map_eq_some_iff] at h
        obtain ⟨r, hr, he⟩ := h
        cases he
        exact ((ih (st' := r.1) (res := r.2) hr).mono_left
          (by intro a ha; simp only [List.flatMap_cons, List.mem_append]; exact Or.inr ha)).weaken
          (by simp [addrs])
      | some os =>
        simp only [mergeInner] at h
        cases hc : cells st (some os) with
        | none => rw [hc] at h; cases h
        | some src =>
          rw [hc] at h
          simp only at h
          cases ha : mergeInto st m src with
          | none => rw [ha] at h; cases h
          | some a =>
            rw [ha] at h
            simp only [Option.map_eq_some_iff] at h
            obtain ⟨r, hr, he⟩ := h
            cases he
            have h1 := (mergeInto_step (st' := a.1) (d' := a.2) ha).mono_left
              (G := (m :: mine).flatMap addrs)
              (by intro x hx; simp only [List.flatMap_cons, List.mem_append]; exact Or.inl hx)
            have h2 := ih (st' := r.1) (res := r.2) hr
            exact (h1.seq h2 (by
              intro x hx; simp only [List.flatMap_cons, List.mem_append]; exact Or.inl (Or.inr hx))).weaken
              (by simp)

theorem mergeAreaMembers_step {st st' : Store} {e o : Feat} {ids' : List (Option Slice)}
    {p' : Option Slice} (h : mergeAreaMembers st e o = some (st', ids', p'))
    (hv : ∀ a ∈ e.ids.flatMap addrs ++ addrs e.polygons, a < st.length) :
    Step (e.ids.flatMap addrs ++ addrs e.polygons) st st' (ids'.flatMap addrs ++ addrs p') := by
  unfold mergeAreaMembers at h
  simp only at h
  -- the adjusted list of the receiver's inner slices: its own ones and newly made ones
  have hg : ∃ news : List (Option Slice), (∀ a ∈ (if e.ids.length < o.ids.length then growIds st e.ids (o.ids.drop e.ids.length)
        else (st, e.ids.take o.ids.length)).2.flatMap addrs,
          a ∈ e.ids.flatMap addrs ++ addrs e.polygons ∨ a ∈ news.flatMap addrs) ∧
      Step [] st (if e.ids.length < o.ids.length then growIds st e.ids (o.ids.drop e.ids.length)
        else (st, e.ids.take o.ids.length)).1 (news.flatMap addrs) := by
    split
    · obtain ⟨news, h1, h2⟩ := growIds_step (o.ids.drop e.ids.length) st e.ids
      refine ⟨news, ?_, h2⟩
      rw [h1]
      intro a ha
      simp only [List.flatMap_append, List.mem_append] at ha ⊢
      rcases ha with ha | ha
      · exact Or.inl (Or.inl ha)
      · exact Or.inr ha
    · refine ⟨[], ?_, Step.refl (by simp)⟩
      intro a ha
      simp only [List.mem_flatMap] at ha
      obtain ⟨s, hs, has⟩ := ha
      exact Or.inl (List.mem_append_left _ (List.mem_flatMap.mpr ⟨s, List.mem_of_mem_take hs, has⟩))
  obtain ⟨news, hsub, hstep⟩ := hg
  generalize (if e.ids.length < o.ids.length then growIds st e.ids (o.ids.drop e.ids.length)
        else (st, e.ids.take o.ids.length)) = g at h hsub hstep
  cases hi : mergeInner g.1 g.2 o.ids with
  | none => rw [hi] at h; cases h
  | some i =>
    rw [hi] at h
    simp only at h
    cases hc : cells i.1 o.polygons with
    | none => rw [hc] at h; cases h
    | some ps =>
      rw [hc] at h
      simp only at h
      cases hp : mergeInto i.1 e.polygons ps with
      | none => rw [hp] at h; cases h
      | some p =>
        rw [hp] at h
        simp only [Option.some.injEq, Prod.mk.injEq] at h
        obtain ⟨rfl, rfl, rfl⟩ := h
        have s1 := (Step.refl hv).seq hstep (by simp)
        have s2 := s1.seq (mergeInner_step (st' := i.1) (res := i.2) hi) (by
          intro a ha
          rcases hsub a ha with h | h
          · exact Or.inl h
          · exact Or.inr (List.mem_append_right _ h))
        have s3 := s2.seq (mergeInto_step (st' := p.1) (d' := p.2) hp)
          (fun a ha => Or.inl (List.mem_append_right _ ha))
        refine s3.weaken ?_
        intro a ha
        simp only [List.mem_append] at ha ⊢
        rcases ha with ha | ha
        · exact Or.inl (Or.inr ha)
        · exact Or.inr ha

theorem mergeFrom_step {st st' : Store} {e o e' : Feat} (h : mergeFrom st e o = some (st', e'))
    (hv : Valid st e) : Step (fp e) st st' (fp e') := by
  unfold mergeFrom at h
  cases hk : e.kind with
  | generic =>
    rw [hk] at h
    simp only at h
    cases hc : cloneMake st o.tags with
    | none => rw [hc] at h; cases h
    | some c =>
      rw [hc] at h
      simp only at h
      cases hs : cells c.1 c.2 with
      | none => rw [hs] at h; cases h
      | some src =>
        rw [hs] at h
        simp only at h
        cases ht : mergeInto c.1 e.tags src with
        | none => rw [ht] at h; cases h
        | some t =>
          rw [ht] at h
          cases h
          have s1 := (Step.refl hv).seq (cloneMake_step (st' := c.1) (s' := c.2) hc) (by simp)
          have s2 := s1.seq (mergeInto_step (st' := t.1) (d' := t.2) ht)
            (fun a ha => Or.inl (by simp [mem_fp, ha]))
          refine s2.weaken ?_
          intro a ha
          simp only [mem_fp] at ha
          simp only [List.mem_append, mem_fp]
          rcases ha with h | h | h | h | h | h <;> simp [h]
  | area =>
    rw [hk] at h
    simp only at h
    split at h
    · cases h
    · cases hc : cells st o.tags with
      | none => rw [hc] at h; cases h
      | some src =>
        rw [hc] at h
        simp only at h
        cases ht : mergeInto st e.tags src with
        | none => rw [ht] at h; cases h
        | some t =>
          rw [ht] at h
          simp only at h
          cases hm : mergeAreaMembers t.1 e o with
          | none => rw [hm] at h; cases h
          | some r =>
            rw [hm] at h
            cases h
            have s1 := (Step.refl hv).seq (mergeInto_step (st' := t.1) (d' := t.2) ht)
              (fun a ha => Or.inl (by simp [mem_fp, ha]))
            have hsubE : ∀ a ∈ e.ids.flatMap addrs ++ addrs e.polygons, a ∈ fp e := by
              intro a ha
              simp only [List.mem_append, List.mem_flatMap] at ha
              simp only [mem_fp]
              rcases ha with ⟨x, hx, hax⟩ | ha
              · exact Or.inr (Or.inr (Or.inr (Or.inr (Or.inr ⟨x, hx, hax⟩))))
              · exact Or.inr (Or.inl ha)
            have hm' := mergeAreaMembers_step (st' := r.1) (ids' := r.2.1) (p' := r.2.2) hm
              (fun a ha => Nat.lt_of_lt_of_le (hv a (hsubE a ha)) s1.grow)
            have s2 := s1.seq hm' (fun a ha => Or.inl (hsubE a ha))
            refine s2.weaken ?_
            intro a ha
            simp only [mem_fp] at ha
            simp only [List.mem_append, mem_fp, List.mem_flatMap]
            rcases ha with h | h | h | h | h | h <;> simp_all
  | relation =>
    rw [hk] at h
    simp only at h
    split at h
    · cases h
    · cases hc : cells st o.tags with
      | none => rw [hc] at h; cases h
      | some src =>
        rw [hc] at h
        simp only at h
        cases ht : mergeInto st e.tags src with
        | none => rw [ht] at h; cases h
        | some t =>
          rw [ht] at h
          simp only at h
          cases hms : cells t.1 o.members with
          | none => rw [hms] at h; cases h
          | some ms =>
            rw [hms] at h
            simp only at h
            cases hm : mergeInto t.1 e.members ms with
            | none => rw [hm] at h; cases h
            | some m =>
              rw [hm] at h
              cases h
              have s1 := (Step.refl hv).seq (mergeInto_step (st' := t.1) (d' := t.2) ht)
                (fun a ha => Or.inl (by simp [mem_fp, ha]))
              have s2 := s1.seq (mergeInto_step (st' := m.1) (d' := m.2) hm)
                (fun a ha => Or.inl (by simp [mem_fp, ha]))
              refine s2.weaken ?_
              intro a ha
              simp only [mem_fp] at ha
              simp only [List.mem_append, mem_fp]
              rcases ha with h | h | h | h | h | h <;> simp [h]
  | collection =>
    rw [hk] at h
    simp only at h
    split at h
    · cases h
    · cases hc : cells st o.tags with
      | none => rw [hc] at h; cases h
      | some src =>
        rw [hc] at h
        simp only at h
        cases ht : mergeInto st e.tags src with
        | none => rw [ht] at h; cases h
        | some t =>
          rw [ht] at h
          simp only at h
          cases hks : cloneKeepNil t.1 o.keys with
          | none => rw [hks] at h; cases h
          | some ks =>
            rw [hks] at h
            simp only at h
            cases hvs : cloneKeepNil ks.1 o.values with
            | none => rw [hvs] at h; cases h
            | some vs =>
              rw [hvs] at h
              cases h
              have s1 := (Step.refl hv).seq (mergeInto_step (st' := t.1) (d' := t.2) ht)
                (fun a ha => Or.inl (by simp [mem_fp, ha]))
              have s2 := s1.seq (cloneKeepNil_step (st' := ks.1) (s' := ks.2) hks) (by simp)
              have s3 := s2.seq (cloneKeepNil_step (st' := vs.1) (s' := vs.2) hvs) (by simp)
              refine s3.weaken ?_
              intro a ha
              simp only [mem_fp] at ha
              simp only [List.mem_append, mem_fp]
              rcases ha with h | h | h | h | h | h <;> simp [h]

/-! ### what is observed of a feature depends on its own arrays only -/

theorem cells_congr {st st' : Store} {s : Option Slice} (h : ∀ a ∈ addrs s, st'[a]? = st[a]?) :
    cells st' s = cells st s := by
  cases s with
  | none => rfl
  | some s =>
    simp only [cells]
    rw [h s.addr (by simp [addrs])]

theorem viewIds_congr {st st' : Store} {l : List (Option Slice)}
    (h : ∀ a ∈ l.flatMap addrs, st'[a]? = st[a]?) : viewIds st' l = viewIds st l := by
  induction l with
  | nil => rfl
  | cons x rest ih =>
    have hr : ∀ a ∈ rest.flatMap addrs, st'[a]? = st[a]? := fun a ha =>
      h a (by simp only [List.flatMap_cons, List.mem_append]; exact Or.inr ha)
    cases x with
    | none => simp only [viewIds, ih hr]
    | some s =>
      have hc : cells st' (some s) = cells st (some s) := cells_congr (fun a ha =>
        h a (by simp only [List.flatMap_cons, List.mem_append]; exact Or.inl ha))
      simp only [viewIds, ih hr, hc]

theorem view_congr {st st' : Store} {f : Feat} (h : ∀ a ∈ fp f, st'[a]? = st[a]?) :
    view st' f = view st f := by
  unfold view
  rw [cells_congr (s := f.tags) (fun a ha => h a (by simp [mem_fp, ha])),
    cells_congr (s := f.polygons) (fun a ha => h a (by simp [mem_fp, ha])),
    cells_congr (s := f.members) (fun a ha => h a (by simp [mem_fp, ha])),
    cells_congr (s := f.keys) (fun a ha => h a (by simp [mem_fp, ha])),
    cells_congr (s := f.values) (fun a ha => h a (by simp [mem_fp, ha])),
    viewIds_congr (l := f.ids) (fun a ha => h a (by
      simp only [List.mem_flatMap] at ha
      exact mem_fp.mpr (Or.inr (Or.inr (Or.inr (Or.inr (Or.inr ha)))))))]

/-- **frame rule for observations**: an operation with footprint `W` does not change what is observed of
a feature whose arrays are allocated and disjoint from `W`. -/
theorem view_frame {W W' : List Nat} {st st' : Store} {g : Feat} (h : Step W st st' W')
    (hv : Valid st g) (hd : ∀ a ∈ fp g, a ∉ W) : view st' g = view st g :=
  view_congr (fun a ha => h.frame a (hv a ha) (hd a ha))

/-! ### a clone starts out equal to its original -/

/-- the unused fields of each feature kind are empty (`GenericFeature` has tags only, …) -/
def Proper (f : Feat) : Prop :=
  match f.kind with
  | .generic => f.ids = [] ∧ f.polygons = none ∧ f.members = none ∧ f.keys = none ∧ f.values = none
      ∧ f.sorted = false
  | .area => f.members = none ∧ f.keys = none ∧ f.values = none ∧ f.sorted = false
  | .relation => f.ids = [] ∧ f.polygons = none ∧ f.keys = none ∧ f.values = none ∧ f.sorted = false
  | .collection => f.ids = [] ∧ f.polygons = none ∧ f.members = none

instance (f : Feat) : Decidable (Proper f) := by
  unfold Proper
  split <;> infer_instance

theorem cells_alloc (st : Store) (cs : List Cell) :
    cells (alloc st cs).1 (some (alloc st cs).2) = some cs := by
  simp [cells, alloc]

theorem cloneMake_cells {st st' : Store} {s s' : Option Slice}
    (h : cloneMake st s = some (st', s')) : cells st' s' = cells st s ∧ ∃ x, s' = some x := by
  unfold cloneMake at h
  cases hc : cells st s with
  | none => rw [hc] at h; cases h
  | some cs =>
    rw [hc] at h
    cases h
    exact ⟨cells_alloc st cs, _, rfl⟩

theorem cloneKeepNil_cells {st st' : Store} {s s' : Option Slice}
    (h : cloneKeepNil st s = some (st', s')) : cells st' s' = cells st s := by
  unfold cloneKeepNil at h
  cases s with
  | none => cases h; rfl
  | some s => exact (cloneMake_cells h).1

/-- pure allocation: every existing array is unchanged -/
theorem cells_pure {X : List Nat} {st st' : Store} {s : Option Slice} (h : Step [] st st' X)
    (hv : ∀ a ∈ addrs s, a < st.length) : cells st' s = cells st s :=
  cells_congr (fun a ha => h.frame a (hv a ha) (by simp))

theorem viewIds_pure {X : List Nat} {st st' : Store} {l : List (Option Slice)} (h : Step [] st st' X)
    (hv : ∀ a ∈ l.flatMap addrs, a < st.length) : viewIds st' l = viewIds st l :=
  viewIds_congr (fun a ha => h.frame a (hv a ha) (by simp))

theorem cloneInner_view {l : List (Option Slice)} : ∀ {st st' : Store} {l' : List (Option Slice)},
    cloneInner st l = some (st', l') → (∀ a ∈ l.flatMap addrs, a < st.length) →
    viewIds st' l' = viewIds st l := by
  induction l with
  | nil =>
    intro st st' l' h _
    simp only [cloneInner, Option.some.injEq, Prod.mk.injEq] at h
    obtain ⟨rfl, rfl⟩ := h
    rfl
  | cons x rest ih =>
    intro st st' l' h hv
    have hvr : ∀ a ∈ rest.flatMap addrs, a < st.length := fun a ha =>
      hv a (by simp only [List.flatMap_cons, List.mem_append]; exact Or.inr ha)
    cases x with
    | none =>
      simp only [cloneInner, Option.map_eq_some_iff] at h
      obtain ⟨r, hr, he⟩ := h
      cases he
      simp only [viewIds, ih (st' := r.1) (l' := r.2) hr hvr]
    | some s =>
      simp only [cloneInner] at h
      cases ha : cloneMake st (some s) with
      | none => rw [ha] at h; cases h
      | some a =>
        rw [ha] at h
        simp only [Option.map_eq_some_iff] at h
        obtain ⟨r, hr, he⟩ := h
        cases he
        have h1 := cloneMake_step (st' := a.1) (s' := a.2) ha
        have h2 := cloneInner_step (st' := r.1) (l' := r.2) hr
        obtain ⟨hc, x, hx⟩ := cloneMake_cells (st' := a.1) (s' := a.2) ha
        have hrest : viewIds r.1 r.2 = viewIds st rest := by
          rw [ih (st' := r.1) (l' := r.2) hr (fun a' ha' => Nat.lt_of_lt_of_le (hvr a' ha') h1.grow)]
          exact viewIds_pure h1 hvr
        have hhead : cells r.1 a.2 = cells st (some s) := by
          rw [cells_pure h2 h1.valid, hc]
        rw [hx] at hhead ⊢
        simp only [viewIds, hrest, hhead]

theorem cells_none (st : Store) : cells st none = some [] := rfl

theorem clone_view {st st' : Store} {f c : Feat} (h : cloneFeat st f = some (st', c))
    (hv : Valid st f) (hp : Proper f) : view st' c = view st f := by
  unfold cloneFeat at h
  cases ht : cloneMake st f.tags with
  | none => rw [ht] at h; cases h
  | some t =>
    rw [ht] at h
    simp only at h
    have h1 := cloneMake_step (st' := t.1) (s' := t.2) ht
    have hct := (cloneMake_cells (st' := t.1) (s' := t.2) ht).1
    unfold Proper at hp
    cases hk : f.kind with
    | generic =>
      rw [hk] at h hp
      simp only at h hp
      obtain ⟨p1, p2, p3, p4, p5, p6⟩ := hp
      cases h
      simp only [view, hct, p1, p2, p3, p4, p5, p6, hk, viewIds, cells_none]
    | area =>
      rw [hk] at h hp
      simp only at h hp
      obtain ⟨p3, p4, p5, p6⟩ := hp
      cases hi : cloneInner t.1 f.ids with
      | none => rw [hi] at h; cases h
      | some i =>
        rw [hi] at h
        simp only at h
        cases hpl : cloneMake i.1 f.polygons with
        | none => rw [hpl] at h; cases h
        | some p =>
          rw [hpl] at h
          cases h
          have h2 := cloneInner_step (st' := i.1) (l' := i.2) hi
          have h3 := cloneMake_step (st' := p.1) (s' := p.2) hpl
          have hids : ∀ a ∈ f.ids.flatMap addrs, a < st.length := fun a ha => hv a (by
            simp only [List.mem_flatMap] at ha
            exact mem_fp.mpr (Or.inr (Or.inr (Or.inr (Or.inr (Or.inr ha))))))
          have hpol : ∀ a ∈ addrs f.polygons, a < st.length := fun a ha => hv a (by simp [mem_fp, ha])
          have e1 : cells p.1 t.2 = cells st f.tags := by
            rw [cells_pure h3 (fun a ha => Nat.lt_of_lt_of_le (h1.valid a ha) h2.grow),
              cells_pure h2 h1.valid, hct]
          have e2 : viewIds p.1 i.2 = viewIds st f.ids := by
            rw [viewIds_pure h3 h2.valid,
              cloneInner_view hi (fun a ha => Nat.lt_of_lt_of_le (hids a ha) h1.grow),
              viewIds_pure h1 hids]
          have e3 : cells p.1 p.2 = cells st f.polygons := by
            rw [(cloneMake_cells (st' := p.1) (s' := p.2) hpl).1,
              cells_pure h2 (fun a ha => Nat.lt_of_lt_of_le (hpol a ha) h1.grow), cells_pure h1 hpol]
          simp only [view, e1, e2, e3, p3, p4, p5, p6, hk, cells_none]
    | relation =>
      rw [hk] at h hp
      simp only at h hp
      obtain ⟨p1, p2, p4, p5, p6⟩ := hp
      cases hm : cloneMake t.1 f.members with
      | none => rw [hm] at h; cases h
      | some m =>
        rw [hm] at h
        cases h
        have h2 := cloneMake_step (st' := m.1) (s' := m.2) hm
        have hmem : ∀ a ∈ addrs f.members, a < st.length := fun a ha => hv a (by simp [mem_fp, ha])
        have e1 : cells m.1 t.2 = cells st f.tags := by rw [cells_pure h2 h1.valid, hct]
        have e2 : cells m.1 m.2 = cells st f.members := by
          rw [(cloneMake_cells (st' := m.1) (s' := m.2) hm).1, cells_pure h1 hmem]
        simp only [view, e1, e2, p1, p2, p4, p5, p6, hk, viewIds, cells_none]
    | collection =>
      rw [hk] at h hp
      simp only at h hp
      obtain ⟨p1, p2, p3⟩ := hp
      cases hks : cloneKeepNil t.1 f.keys with
      | none => rw [hks] at h; cases h
      | some k =>
        rw [hks] at h
        simp only at h
        cases hvs : cloneKeepNil k.1 f.values with
        | none => rw [hvs] at h; cases h
        | some v =>
          rw [hvs] at h
          cases h
          have h2 := cloneKeepNil_step (st' := k.1) (s' := k.2) hks
          have h3 := cloneKeepNil_step (st' := v.1) (s' := v.2) hvs
          have hkv : ∀ a ∈ addrs f.keys, a < st.length := fun a ha => hv a (by simp [mem_fp, ha])
          have hvv : ∀ a ∈ addrs f.values, a < st.length := fun a ha => hv a (by simp [mem_fp, ha])
          have e1 : cells v.1 t.2 = cells st f.tags := by
            rw [cells_pure h3 (fun a ha => Nat.lt_of_lt_of_le (h1.valid a ha) h2.grow),
              cells_pure h2 h1.valid, hct]
          have e2 : cells v.1 k.2 = cells st f.keys := by
            rw [cells_pure h3 h2.valid, cloneKeepNil_cells hks, cells_pure h1 hkv]
          have e3 : cells v.1 v.2 = cells st f.values := by
            rw [cloneKeepNil_cells hvs,
              cells_pure h2 (fun a ha => Nat.lt_of_lt_of_le (hvv a ha) h1.grow), cells_pure h1 hvv]
          simp only [view, e1, e2, e3, p1, p2, p3, hk, viewIds, cells_none]

theorem newFeat_step (st : Store) (kind : Kind) (id : String) (n : Nat) :
    Step [] st (newFeat st kind id n).1 (fp (newFeat st kind id n).2) := by
  cases kind with
  | generic => exact (Step.refl (by simp)).weaken (by simp [newFeat, fp, addrs])
  | area =>
    refine (alloc_step st (List.replicate n (Cell.scalar ""))).weaken ?_
    intro a ha
    simp only [newFeat, mem_fp, addrs] at ha
    rcases ha with h | h | h | h | h | ⟨s, hs, h⟩
    · simp at h
    · simpa using h
    · simp at h
    · simp at h
    · simp at h
    · have := List.eq_of_mem_replicate hs
      subst this
      simp at h
  | relation =>
    refine (alloc_step st (List.replicate n (Cell.pair "0" ""))).weaken ?_
    intro a ha
    simp only [newFeat, mem_fp, addrs] at ha
    rcases ha with h | h | h | h | h | ⟨s, hs, h⟩
    · simp at h
    · simp at h
    · simpa using h
    · simp at h
    · simp at h
    · simp at hs
  | collection => exact (Step.refl (by simp)).weaken (by simp [newFeat, fp, addrs])

/-! ### separation of a set of owners -/

/-- no backing array in common -/
def Disj (f g : Feat) : Prop := ∀ a ∈ fp f, a ∉ fp g

theorem Disj.symm {f g : Feat} (h : Disj f g) : Disj g f := fun a hg hf => h a hf hg

/-- the features at different positions of the list share no array -/
def SepIdx (l : List Feat) : Prop :=
  ∀ (i j : Nat) (x y : Feat), i ≠ j → l[i]? = some x → l[j]? = some y → Disj x y

/-- after an operation through `r`, `r'` is still disjoint from every allocated `x` that `r` was disjoint from -/
theorem disj_after {st st' : Store} {r r' x : Feat} (hs : Step (fp r) st st' (fp r'))
    (hx : Valid st x) (hd : Disj r x) : Disj r' x := by
  intro a ha hax
  rcases hs.sub a ha with h | h
  · exact hd a h hax
  · have := hx a hax
    omega

/-- a feature made of newly allocated arrays is disjoint from every allocated one -/
theorem disj_fresh {st st' : Store} {c x : Feat} (hs : Step [] st st' (fp c)) (hx : Valid st x) :
    Disj c x := by
  intro a ha hax
  rcases hs.sub a ha with h | h
  · simp at h
  · have := hx a hax
    omega

theorem valid_grow {st st' : Store} {x : Feat} (h : st.length ≤ st'.length) (hx : Valid st x) :
    Valid st' x := fun a ha => Nat.lt_of_lt_of_le (hx a ha) h

/-- two groups of owners (a world's entries and the callers' values): every feature allocated, no two
different owners share an array -/
structure Sep2 (st : Store) (l1 l2 : List Feat) : Prop where
  valid1 : ∀ x ∈ l1, Valid st x
  valid2 : ∀ x ∈ l2, Valid st x
  sep1 : SepIdx l1
  sep2 : SepIdx l2
  cross : ∀ x ∈ l1, ∀ y ∈ l2, Disj x y

theorem Sep2.symm {st : Store} {l1 l2 : List Feat} (h : Sep2 st l1 l2) : Sep2 st l2 l1 :=
  ⟨h.valid2, h.valid1, h.sep2, h.sep1, fun y hy x hx => (h.cross x hx y hy).symm⟩

/-- an operation through the owner at position `i` of the first group -/
theorem Sep2.set {st st' : Store} {l1 l2 : List Feat} {i : Nat} {r r' : Feat} (h : Sep2 st l1 l2)
    (hi : l1[i]? = some r) (hs : Step (fp r) st st' (fp r')) :
    Sep2 st' (l1.set i r') l2 ∧
    (∀ j x, j ≠ i → l1[j]? = some x → view st' x = view st x) ∧
    (∀ x ∈ l2, view st' x = view st x) := by
  have hr : r ∈ l1 := List.mem_of_getElem? hi
  have hilt : i < l1.length := by
    rcases Nat.lt_or_ge i l1.length with h' | h'
    · exact h'
    · rw [List.getElem?_eq_none h'] at hi; cases hi
  refine ⟨⟨?_, ?_, ?_, h.sep2, ?_⟩, ?_, ?_⟩
  · intro x hx
    rcases List.mem_or_eq_of_mem_set hx with hx | rfl
    · exact valid_grow hs.grow (h.valid1 x hx)
    · exact hs.valid
  · intro x hx
    exact valid_grow hs.grow (h.valid2 x hx)
  · unfold SepIdx
    intro a b x y hab hx hy
    rw [List.getElem?_set] at hx hy
    by_cases ha : i = a
    · subst ha
      have hb : ¬ i = b := hab
      simp only [hilt, ↓reduceIte, Option.some.injEq] at hx
      simp only [hb, ↓reduceIte] at hy
      subst hx
      exact disj_after hs (h.valid1 y (List.mem_of_getElem? hy)) (h.sep1 i b r y hab hi hy)
    · simp only [ha, ↓reduceIte] at hx
      by_cases hb : i = b
      · subst hb
        simp only [hilt, ↓reduceIte, Option.some.injEq] at hy
        subst hy
        exact (disj_after hs (h.valid1 x (List.mem_of_getElem? hx))
          (h.sep1 i a r x (fun e => ha e) hi hx)).symm
      · simp only [hb, ↓reduceIte] at hy
        exact h.sep1 a b x y hab hx hy
  · intro x hx y hy
    rcases List.mem_or_eq_of_mem_set hx with hx | rfl
    · exact h.cross x hx y hy
    · exact disj_after hs (h.valid2 y hy) (h.cross r hr y hy)
  · intro j x hj hx
    exact view_frame hs (h.valid1 x (List.mem_of_getElem? hx))
      (fun a hax har => h.sep1 i j r x (fun e => hj e.symm) hi hx a har hax)
  · intro y hy
    exact view_frame hs (h.valid2 y hy) (fun a hay har => h.cross r hr y hy a har hay)

/-- a new owner, made of newly allocated arrays, joins the first group -/
theorem Sep2.push {st st' : Store} {l1 l2 : List Feat} {c : Feat} (h : Sep2 st l1 l2)
    (hs : Step [] st st' (fp c)) :
    Sep2 st' (l1 ++ [c]) l2 ∧ (∀ x ∈ l1, view st' x = view st x) ∧ (∀ x ∈ l2, view st' x = view st x) := by
  refine ⟨⟨?_, ?_, ?_, h.sep2, ?_⟩, ?_, ?_⟩
  · intro x hx
    rcases List.mem_append.mp hx with hx | hx
    · exact valid_grow hs.grow (h.valid1 x hx)
    · have : x = c := by simpa using hx
      subst this
      exact hs.valid
  · intro x hx
    exact valid_grow hs.grow (h.valid2 x hx)
  · unfold SepIdx
    intro a b x y hab hx hy
    rw [List.getElem?_append] at hx hy
    by_cases ha : a < l1.length
    · simp only [ha, ↓reduceIte] at hx
      by_cases hb : b < l1.length
      · simp only [hb, ↓reduceIte] at hy
        exact h.sep1 a b x y hab hx hy
      · simp only [hb, ↓reduceIte] at hy
        have : y = c := by
          have := List.mem_of_getElem? hy
          simpa using this
        subst this
        exact (disj_fresh hs (h.valid1 x (List.mem_of_getElem? hx))).symm
    · simp only [ha, ↓reduceIte] at hx
      have hxc : x = c := by
        have := List.mem_of_getElem? hx
        simpa using this
      subst hxc
      by_cases hb : b < l1.length
      · simp only [hb, ↓reduceIte] at hy
        exact disj_fresh hs (h.valid1 y (List.mem_of_getElem? hy))
      · simp only [hb, ↓reduceIte] at hy
        -- both positions are the single new one
        have h1 : a - l1.length = 0 := by
          rcases Nat.lt_or_ge (a - l1.length) 1 with h' | h'
          · omega
          · rw [List.getElem?_eq_none (by simpa using h')] at hx; cases hx
        have h2 : b - l1.length = 0 := by
          rcases Nat.lt_or_ge (b - l1.length) 1 with h' | h'
          · omega
          · rw [List.getElem?_eq_none (by simpa using h')] at hy; cases hy
        omega
  · intro x hx y hy
    rcases List.mem_append.mp hx with hx | hx
    · exact h.cross x hx y hy
    · have : x = c := by simpa using hx
      subst this
      exact disj_fresh hs (h.valid2 y hy)
  · intro x hx
    exact view_frame hs (h.valid1 x hx) (by simp)
  · intro y hy
    exact view_frame hs (h.valid2 y hy) (by simp)

/-! ### what the copy idioms produce — for every capacity (any store, any array length) -/

theorem cells_allocCap (st : Store) (cs pad : List Cell) :
    cells (allocCap st cs pad).1 (some (allocCap st cs pad).2) = some cs := by
  simp [cells, allocCap]

theorem cells_some_arr {st : Store} {s : Slice} {arr : List Cell} (ha : st[s.addr]? = some arr)
    (hl : s.len ≤ arr.length) : cells st (some s) = some (arr.take s.len) := by
  simp [cells, ha, hl]

theorem cells_set_self {st : Store} {a n : Nat} {arr : List Cell} (ha : a < st.length)
    (hn : n ≤ arr.length) : cells (st.set a arr) (some ⟨a, n⟩) = some (arr.take n) := by
  have : (st.set a arr)[a]? = some arr := by simp [ha]
  simp [cells, this, hn]

/-- `append` yields the old visible elements followed by the new ones, whether it wrote in place or
re-allocated — i.e. whatever the capacity was -/
theorem append_cells {st st' : Store} {s s' : Option Slice} {cs xs : List Cell}
    (h : append st s cs = some (st', s')) (hx : cells st s = some xs) :
    cells st' s' = some (xs ++ cs) := by
  unfold append at h
  cases s with
  | none =>
    simp only [cells, Option.some.injEq] at hx
    subst hx
    simp only at h
    split at h
    · rename_i hcs
      cases h
      simp [cells, hcs]
    · cases h
      simpa using cells_alloc st cs
  | some s =>
    simp only at h
    cases harr : st[s.addr]? with
    | none => rw [harr] at h; cases h
    | some arr =>
      rw [harr] at h
      simp only at h
      split at h
      · rename_i hl
        rw [cells_some_arr harr hl, Option.some.injEq] at hx
        subst hx
        split at h
        · rename_i hfit
          cases h
          rw [cells_set_self (lt_of_getElem?_some harr) (by simp; omega)]
          congr 1
          rw [List.append_assoc]
          have : (List.take s.len arr ++ cs).length = s.len + cs.length := by
            simp [List.length_take, Nat.min_eq_left hl]
          rw [← List.append_assoc, List.take_left' this]
        · cases h
          exact cells_allocCap st _ _
      · cases h

/-- the `copy` + `append`/truncate idiom leaves exactly the source's elements visible, whatever the
receiver's old length and capacity were (shorter, equal, longer; nil) -/
theorem mergeInto_cells {st st' : Store} {d d' : Option Slice} {src : List Cell}
    (h : mergeInto st d src = some (st', d')) : cells st' d' = some src := by
  unfold mergeInto at h
  cases d with
  | none => simpa using append_cells h (xs := []) rfl
  | some d =>
    simp only at h
    cases harr : st[d.addr]? with
    | none => rw [harr] at h; cases h
    | some arr =>
      rw [harr] at h
      simp only at h
      have hlt := lt_of_getElem?_some harr
      split at h
      · rename_i hl
        split at h
        · rename_i hshort
          have hmin : min d.len src.length = d.len := by omega
          rw [hmin] at h
          have hlen : (src.take d.len ++ arr.drop d.len).length = arr.length := by
            simp [List.length_take]; omega
          have hc : cells (st.set d.addr (src.take d.len ++ arr.drop d.len)) (some d)
              = some (src.take d.len) := by
            rw [cells_set_self hlt (by omega)]
            congr 1
            exact List.take_left' (by simp [List.length_take]; omega)
          have := append_cells h hc
          rwa [List.take_append_drop] at this
        · rename_i hlong
          have hmin : min d.len src.length = src.length := by omega
          rw [hmin] at h
          cases h
          rw [cells_set_self hlt (by simp)]
          congr 1
          rw [List.take_of_length_le (Nat.le_refl _)]
          exact List.take_left' rfl
      · cases h

/-- an operation with footprint `W` leaves a slice outside `W` as it was -/
theorem cells_step_other {W W' : List Nat} {st st' : Store} {s : Option Slice} (h : Step W st st' W')
    (hs : ∀ a ∈ addrs s, a < st.length ∧ a ∉ W) : cells st' s = cells st s :=
  cells_congr (fun a ha => h.frame a (hs a ha).1 (hs a ha).2)

theorem viewIds_step_other {W W' : List Nat} {st st' : Store} {l : List (Option Slice)}
    (h : Step W st st' W') (hs : ∀ a ∈ l.flatMap addrs, a < st.length ∧ a ∉ W) :
    viewIds st' l = viewIds st l :=
  viewIds_congr (fun a ha => h.frame a (hs a ha).1 (hs a ha).2)

/-! ### `MergeFrom` makes the receiver observably equal to its argument -/

/-- the slices `growIds` adds: one per missing member, of the member's length, over new, different arrays -/
theorem growIds_spec (rest : List (Option Slice)) : ∀ (st : Store) (mine : List (Option Slice)),
    ∃ news : List (Option Slice), (growIds st mine rest).2 = mine ++ news ∧ news.length = rest.length ∧
      (news.flatMap addrs).Nodup ∧ (∀ a ∈ news.flatMap addrs, st.length ≤ a) ∧
      Step [] st (growIds st mine rest).1 (news.flatMap addrs) := by
  induction rest with
  | nil => intro st mine; exact ⟨[], by simp [growIds], rfl, by simp, by simp, Step.refl (by simp)⟩
  | cons o rest ih =>
    intro st mine
    simp only [growIds]
    obtain ⟨news, h1, h2, h3, h4, h5⟩ := ih (alloc st (List.replicate (slen o) (Cell.scalar "0"))).1
      (mine ++ [some (alloc st (List.replicate (slen o) (Cell.scalar "0"))).2])
    refine ⟨some (alloc st (List.replicate (slen o) (Cell.scalar "0"))).2 :: news, ?_, ?_, ?_, ?_, ?_⟩
    · rw [h1]; simp
    · simp [h2]
    · simp only [List.flatMap_cons, addrs, List.singleton_append, List.nodup_cons]
      refine ⟨fun hm => ?_, h3⟩
      have := h4 _ hm
      simp [alloc] at this
      omega
    · intro a ha
      simp only [List.flatMap_cons, addrs, List.singleton_append, List.mem_cons] at ha
      rcases ha with rfl | ha
      · simp [alloc]
      · have := h4 a ha
        simp [alloc] at this
        omega
    · exact ((alloc_step st _).seq h5 (by simp)).weaken (by simp [addrs])

theorem viewIds_cons_some {st : Store} {x : Option Slice} {rest : List (Option Slice)} {cs : List Cell}
    {r : List (Option (List Cell))} (hx : x ≠ none) (hc : cells st x = some cs)
    (hr : viewIds st rest = some r) : viewIds st (x :: rest) = some (some cs :: r) := by
  cases x with
  | none => exact absurd rfl hx
  | some s => simp only [viewIds, hc, hr]

/-- the loop of `AreaMembers.MergeFrom` over equally long lists: the receiver's inner slices end up with
the other's path ids (nil where the other has a polygon), provided the receiver's inner arrays are
different from each other and from the other's, and the other has no empty non-nil path list -/
theorem mergeInner_view {mine : List (Option Slice)} :
    ∀ {theirs : List (Option Slice)} {st st' : Store} {res : List (Option Slice)}
      {tv : List (Option (List Cell))},
    mergeInner st mine theirs = some (st', res) → mine.length = theirs.length →
    (∀ a ∈ mine.flatMap addrs, a < st.length) → (mine.flatMap addrs).Nodup →
    (∀ a ∈ theirs.flatMap addrs, a < st.length ∧ a ∉ mine.flatMap addrs) →
    (∀ s ∈ theirs, s ≠ none → 0 < slen s) →
    viewIds st theirs = some tv → viewIds st' res = some tv := by
  induction mine with
  | nil =>
    intro theirs st st' res tv h hlen _ _ _ _ hv
    simp only [mergeInner, Option.some.injEq, Prod.mk.injEq] at h
    obtain ⟨rfl, rfl⟩ := h
    cases theirs with
    | nil => exact hv
    | cons _ _ => simp at hlen
  | cons m mine ih =>
    intro theirs st st' res tv h hlen hvalid hnd hth hne hv
    cases theirs with
    | nil => simp at hlen
    | cons o theirs =>
      have hlen' : mine.length = theirs.length := by simpa using hlen
      have hnd' : (mine.flatMap addrs).Nodup := by
        simp only [List.flatMap_cons] at hnd
        exact (List.nodup_append.mp hnd).2.1
      have hm_notin : ∀ a ∈ addrs m, a ∉ mine.flatMap addrs := by
        simp only [List.flatMap_cons] at hnd
        intro a ha hr
        exact (List.nodup_append.mp hnd).2.2 a ha a hr rfl
      have hvalid' : ∀ a ∈ mine.flatMap addrs, a < st.length := fun a ha =>
        hvalid a (by simp only [List.flatMap_cons, List.mem_append]; exact Or.inr ha)
      have hth' : ∀ a ∈ theirs.flatMap addrs, a < st.length ∧ a ∉ (m :: mine).flatMap addrs := fun a ha =>
        hth a (by simp only [List.flatMap_cons, List.mem_append]; exact Or.inr ha)
      have hne' : ∀ s ∈ theirs, s ≠ none → 0 < slen s := fun s hs => hne s (List.mem_cons_of_mem _ hs)
      cases o with
      | none =>
        simp only [mergeInner, Option.map_eq_some_iff] at h
        obtain ⟨r, hr, he⟩ := h
        cases he
        simp only [viewIds, Option.map_eq_some_iff] at hv
        obtain ⟨tv', hv', rfl⟩ := hv
        have := ih (st' := r.1) (res := r.2) hr hlen' hvalid' hnd'
          (fun a ha => ⟨(hth' a ha).1, fun hm => (hth' a ha).2
            (by simp only [List.flatMap_cons, List.mem_append]; exact Or.inr hm)⟩) hne' hv'
        simp only [viewIds, this, Option.map_some]
      | some os =>
        simp only [mergeInner] at h
        cases hc : cells st (some os) with
        | none => rw [hc] at h; cases h
        | some src =>
          rw [hc] at h
          simp only at h
          cases ha : mergeInto st m src with
          | none => rw [ha] at h; cases h
          | some a =>
            rw [ha] at h
            simp only [Option.map_eq_some_iff] at h
            obtain ⟨r, hr, he⟩ := h
            cases he
            -- the other's remaining members, before and after this member's copy
            have hstep := mergeInto_step (st' := a.1) (d' := a.2) ha
            have hrest : ∃ tv', viewIds st theirs = some tv' ∧ tv = some src :: tv' := by
              simp only [viewIds, hc] at hv
              cases hvr : viewIds st theirs with
              | none => rw [hvr] at hv; cases hv
              | some tv' => rw [hvr] at hv; cases hv; exact ⟨tv', rfl, rfl⟩
            obtain ⟨tv', hv', rfl⟩ := hrest
            have hv'' : viewIds a.1 theirs = some tv' := by
              rw [viewIds_step_other hstep (fun x hx => ⟨(hth' x hx).1, fun hm => (hth' x hx).2
                (by simp only [List.flatMap_cons, List.mem_append]; exact Or.inl hm)⟩)]
              exact hv'
            have hih := ih (st' := r.1) (res := r.2) hr hlen'
              (fun x hx => Nat.lt_of_lt_of_le (hvalid' x hx) hstep.grow) hnd'
              (fun x hx => ⟨Nat.lt_of_lt_of_le (hth' x hx).1 hstep.grow, fun hm => (hth' x hx).2
                (by simp only [List.flatMap_cons, List.mem_append]; exact Or.inr hm)⟩) hne' hv''
            -- this member's copy survives the rest of the loop
            have hhead : cells r.1 a.2 = some src := by
              rw [cells_step_other (mergeInner_step (st' := r.1) (res := r.2) hr) (fun x hx =>
                ⟨hstep.valid x hx, fun hm => by
                  rcases hstep.sub x hx with h' | h'
                  · exact hm_notin x h' hm
                  · have := hvalid' x hm; omega⟩)]
              exact mergeInto_cells ha
            have hnonnil : a.2 ≠ none := by
              intro hn
              have h1 := mergeInto_cells ha
              rw [hn] at h1
              simp only [cells, Option.some.injEq] at h1
              have hpos := hne (some os) (List.mem_cons_self ..) (by simp)
              have hlen_src : src.length = os.len := by
                simp only [cells] at hc
                split at hc
                · cases hc
                · split at hc
                  · rename_i arr _ hl
                    cases hc
                    simp [List.length_take, Nat.min_eq_left hl]
                  · cases hc
              simp only [slen] at hpos
              rw [← h1] at hlen_src
              simp at hlen_src
              omega
            exact viewIds_cons_some hnonnil hhead hih

theorem mergeAreaMembers_view {st st' : Store} {e o : Feat} {ids' : List (Option Slice)}
    {p' : Option Slice} {iv : List (Option (List Cell))} {pv : List Cell}
    (h : mergeAreaMembers st e o = some (st', ids', p'))
    (hv : ∀ a ∈ e.ids.flatMap addrs ++ addrs e.polygons, a < st.length)
    (hnd : (e.ids.flatMap addrs ++ addrs e.polygons).Nodup)
    (ho : ∀ a ∈ o.ids.flatMap addrs ++ addrs o.polygons,
      a < st.length ∧ a ∉ e.ids.flatMap addrs ++ addrs e.polygons)
    (hne : ∀ s ∈ o.ids, s ≠ none → 0 < slen s)
    (hiv : viewIds st o.ids = some iv) (hpv : cells st o.polygons = some pv) :
    viewIds st' ids' = some iv ∧ cells st' p' = some pv := by
  unfold mergeAreaMembers at h
  simp only at h
  have hEids : ∀ a ∈ e.ids.flatMap addrs, a < st.length := fun a ha => hv a (List.mem_append_left _ ha)
  have hEnd : (e.ids.flatMap addrs).Nodup := (List.nodup_append.mp hnd).1
  have hEpol : ∀ a ∈ addrs e.polygons, a < st.length ∧ a ∉ e.ids.flatMap addrs := fun a ha =>
    ⟨hv a (List.mem_append_right _ ha), fun hm => (List.nodup_append.mp hnd).2.2 a hm a ha rfl⟩
  -- the adjusted list `mine` of the receiver's inner slices and the store `g` it lives in
  have hg : ∃ (gst : Store) (mine : List (Option Slice)) (X : List Nat),
      (if e.ids.length < o.ids.length then growIds st e.ids (o.ids.drop e.ids.length)
        else (st, e.ids.take o.ids.length)) = (gst, mine) ∧
      Step [] st gst X ∧ mine.length = o.ids.length ∧ (mine.flatMap addrs).Nodup ∧
      (∀ a ∈ mine.flatMap addrs, a < gst.length ∧ (a ∈ e.ids.flatMap addrs ∨ st.length ≤ a)) := by
    split
    · rename_i hlt
      obtain ⟨news, h1, h2, h3, h4, h5⟩ := growIds_spec (o.ids.drop e.ids.length) st e.ids
      refine ⟨_, _, _, rfl, h5, ?_, ?_, ?_⟩
      · rw [h1, List.length_append, h2, List.length_drop]; omega
      · rw [h1, List.flatMap_append]
        refine List.nodup_append.mpr ⟨hEnd, h3, ?_⟩
        intro a ha b hb hab
        have := hEids a ha
        have := h4 b hb
        omega
      · intro a ha
        rw [h1, List.flatMap_append] at ha
        rcases List.mem_append.mp ha with ha | ha
        · exact ⟨Nat.lt_of_lt_of_le (hEids a ha) h5.grow, Or.inl ha⟩
        · exact ⟨h5.valid a ha, Or.inr (h4 a ha)⟩
    · rename_i hge
      have hsub : ∀ a ∈ (e.ids.take o.ids.length).flatMap addrs, a ∈ e.ids.flatMap addrs := by
        intro a ha
        simp only [List.mem_flatMap] at ha ⊢
        obtain ⟨s, hs, has⟩ := ha
        exact ⟨s, List.mem_of_mem_take hs, has⟩
      refine ⟨st, _, [], rfl, Step.refl (by simp), ?_, ?_, ?_⟩
      · rw [List.length_take]; omega
      · have : (e.ids.take o.ids.length ++ e.ids.drop o.ids.length).flatMap addrs = e.ids.flatMap addrs := by
          rw [List.take_append_drop]
        rw [List.flatMap_append] at this
        rw [← this] at hEnd
        exact (List.nodup_append.mp hEnd).1
      · intro a ha
        exact ⟨hEids a (hsub a ha), Or.inl (hsub a ha)⟩
  obtain ⟨gst, mine, X, hgeq, hgstep, hlen, hmnd, hmine⟩ := hg
  rw [hgeq] at h
  simp only at h
  have ho_g : ∀ a ∈ o.ids.flatMap addrs ++ addrs o.polygons, a < gst.length ∧ a ∉ mine.flatMap addrs := by
    intro a ha
    refine ⟨Nat.lt_of_lt_of_le (ho a ha).1 hgstep.grow, fun hm => ?_⟩
    rcases (hmine a hm).2 with h' | h'
    · exact (ho a ha).2 (List.mem_append_left _ h')
    · have := (ho a ha).1; omega
  cases hi : mergeInner gst mine o.ids with
  | none => rw [hi] at h; cases h
  | some i =>
    rw [hi] at h
    simp only at h
    cases hc : cells i.1 o.polygons with
    | none => rw [hc] at h; cases h
    | some ps =>
      rw [hc] at h
      simp only at h
      cases hp : mergeInto i.1 e.polygons ps with
      | none => rw [hp] at h; cases h
      | some p =>
        rw [hp] at h
        simp only [Option.some.injEq, Prod.mk.injEq] at h
        obtain ⟨rfl, rfl, rfl⟩ := h
        have histep := mergeInner_step (st' := i.1) (res := i.2) hi
        have hpstep := mergeInto_step (st' := p.1) (d' := p.2) hp
        have hiv_g : viewIds gst o.ids = some iv := by
          rw [viewIds_step_other hgstep (fun a ha => ⟨(ho a (List.mem_append_left _ ha)).1, by simp⟩)]
          exact hiv
        have hids := mergeInner_view hi hlen (fun a ha => (hmine a ha).1) hmnd
          (fun a ha => ho_g a (List.mem_append_left _ ha)) hne hiv_g
        have hps : ps = pv := by
          have : cells i.1 o.polygons = cells st o.polygons := by
            rw [cells_step_other histep (fun a ha => ho_g a (List.mem_append_right _ ha)),
              cells_step_other hgstep (fun a ha => ⟨(ho a (List.mem_append_right _ ha)).1, by simp⟩)]
          rw [this, hpv] at hc
          exact (Option.some.inj hc).symm
        refine ⟨?_, hps ▸ mergeInto_cells hp⟩
        rw [viewIds_step_other hpstep (fun a ha => ⟨histep.valid a ha, fun hm => ?_⟩)]
        · exact hids
        · -- an inner slice of the result is not the receiver's polygons array
          have hpol := hEpol a hm
          rcases histep.sub a ha with h' | h'
          · rcases (hmine a h').2 with h'' | h''
            · exact hpol.2 h''
            · omega
          · have := hgstep.grow
            omega

end B6.Lemmas.FeatureHeap
