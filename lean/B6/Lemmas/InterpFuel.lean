import B6.Model.Interp
/-!
C22: fuel monotonicity of the reference interpreter (`interp_mono`), and the refinement preorder on
expressions with its closure under argument contexts (`Refines.fill`), which lifts the value-preserving
rewrite steps of `Simplify` from the root of a program to any argument position outside lambda bodies.
-/
namespace B6.Lemmas.InterpFuel
open B6.Model

/-! ### fuel monotonicity of the reference interpreter

An outcome other than "out of fuel" does not change when more fuel is given. -/

mutual
  theorem evalWith_mono {app app' : Val → List Val → Res Val}
      (H : ∀ f args, app f args ≠ .error .fuel → app' f args = app f args) :
      (e : Expr) → ∀ (env : Env), evalWith app env e ≠ .error .fuel → evalWith app' env e = evalWith app env e
    | .sym s, env, _ => by simp [evalWith]
    | .lit _, env, _ => by simp [evalWith]
    | .lam _ _, env, _ => by simp [evalWith]
    | .call f args p, env, h => by
      have iha := evalArgs_mono H args env
      rw [evalWith] at h ⊢
      rw [evalWith]
      cases ha : evalArgs app env args with
      | error e =>
        rw [ha] at h iha
        simp only at h
        rw [iha (by intro hh; injection hh with hh; subst hh; exact h rfl)]
      | ok vs =>
        rw [ha] at h iha
        rw [iha (by simp)]
        simp only at h ⊢
        cases f with
        | sym s =>
          simp only at h ⊢
          cases hb : Builtin.ofName s with
          | none => rfl
          | some b => simp only [hb] at h ⊢; exact H _ _ h
        | lit _ => rfl
        | lam ps b =>
          simp only [evalWith] at h ⊢
          exact H _ _ h
        | call g gargs q =>
          have ihf := evalWith_mono H (.call g gargs q) env
          simp only at h ⊢
          cases hf : evalWith app env (.call g gargs q) with
          | error e =>
            rw [hf] at h ihf
            simp only at h
            rw [ihf h]
          | ok fv =>
            rw [hf] at h ihf
            rw [ihf (by simp)]
            simp only at h ⊢
            split
            · rename_i hc; simp only [hc, if_true] at h; exact H _ _ h
            · rfl
  theorem evalArgs_mono {app app' : Val → List Val → Res Val}
      (H : ∀ f args, app f args ≠ .error .fuel → app' f args = app f args) :
      (as : List Expr) → ∀ (env : Env), evalArgs app env as ≠ .error .fuel → evalArgs app' env as = evalArgs app env as
    | [], env, _ => by simp [evalArgs]
    | a :: as, env, h => by
      have iha := evalWith_mono H a env
      have ihs := evalArgs_mono H as env
      rw [evalArgs] at h ⊢
      rw [evalArgs]
      cases ha : evalWith app env a with
      | error e =>
        rw [ha] at h iha
        simp only at h
        rw [iha (by intro hh; injection hh with hh; subst hh; exact h rfl)]
      | ok v =>
        rw [ha] at h iha
        rw [iha (by simp)]
        simp only at h ⊢
        cases hs : evalArgs app env as with
        | error e =>
          rw [hs] at h ihs
          simp only at h
          rw [ihs h]
        | ok vs =>
          rw [hs] at ihs
          rw [ihs (by simp)]
end

theorem applyFn_mono : ∀ (fuel : Nat) (f : Val) (args : List Val),
    applyFn fuel f args ≠ .error .fuel → applyFn (fuel + 1) f args = applyFn fuel f args
  | 0, f, args, h => by simp [applyFn] at h
  | fuel + 1, f, args, h => by
    have ih := applyFn_mono fuel
    cases f with
    | builtin b =>
      simp only [applyFn] at h ⊢
      split
      · rfl
      · split
        · rename_i h1 h2
          simp only [h1, h2, if_false, if_true] at h
          cases hc : convertAll (b.paramsAt args.length) args with
          | error e => rfl
          | ok cs =>
            simp only [hc] at h ⊢
            cases hs : b.step cs with
            | value v => rfl
            | fail => rfl
            | tail g xs => simp only [hs] at h ⊢; exact ih g xs h
        · rfl
    | closure ps body env =>
      simp only [applyFn] at h ⊢
      split
      · rename_i h1
        simp only [h1, if_true] at h
        exact evalWith_mono (fun f args hh => ih f args hh) body _ h
      · rfl
    | part g bs snap =>
      simp only [applyFn] at h ⊢
      cases hm : g.arity with
      | none => rfl
      | some m =>
        simp only [hm] at h ⊢
        split
        · rename_i h1; simp only [h1, if_true] at h; exact ih _ _ h
        · rfl
    | int _ => simp [applyFn]
    | str _ => simp [applyFn]
    | query _ => simp [applyFn]
    | other _ _ => simp [applyFn]
    | pair _ _ => simp [applyFn]
    | lam _ _ => simp [applyFn]

/-- **interp_mono.** More fuel never changes an outcome that is not "out of fuel". -/
theorem interp_mono (fuel k : Nat) (e : Expr) (h : interp fuel e ≠ .error .fuel) :
    interp (fuel + k) e = interp fuel e := by
  induction k with
  | zero => rfl
  | succ k ih =>
    rw [← ih] at h
    rw [← ih]
    unfold interp at h ⊢
    split
    · rename_i hw
      simp only [hw, if_true] at h
      exact evalWith_mono (fun f args hh => applyFn_mono (fuel + k) f args hh) e [] h
    · rfl


/-! ### refinement, and its closure under argument contexts

`Refines e' e`: wherever `e` has an outcome other than "out of fuel", `e'` has the same outcome with
the same fuel, in every environment.  The rewrites of `Simplify` that do not change the value
(`({-> b})` ↦ `b`, `and [a] [b]` ↦ `[a & b]`) are refinements, and refinement is closed under the
contexts built from argument positions of calls (outside lambda bodies). -/

def Refines (e' e : Expr) : Prop :=
  ∀ (fuel : Nat) (env : Env), evalWith (applyFn fuel) env e ≠ .error .fuel →
    evalWith (applyFn fuel) env e' = evalWith (applyFn fuel) env e

def RefinesArgs (as' as : List Expr) : Prop :=
  ∀ (fuel : Nat) (env : Env), evalArgs (applyFn fuel) env as ≠ .error .fuel →
    evalArgs (applyFn fuel) env as' = evalArgs (applyFn fuel) env as

theorem Refines.refl (e : Expr) : Refines e e := fun _ _ _ => rfl

theorem RefinesArgs.refl (as : List Expr) : RefinesArgs as as := fun _ _ _ => rfl

theorem RefinesArgs.cons {a' a : Expr} {as' as : List Expr} (h1 : Refines a' a) (h2 : RefinesArgs as' as) :
    RefinesArgs (a' :: as') (a :: as) := by
  intro fuel env h
  have e1 := h1 fuel env
  have e2 := h2 fuel env
  rw [evalArgs] at h ⊢
  rw [evalArgs]
  cases ha : evalWith (applyFn fuel) env a with
  | error e =>
    rw [ha] at h e1
    simp only at h
    rw [e1 (by intro hh; injection hh with hh; subst hh; exact h rfl)]
  | ok v =>
    rw [ha] at h e1
    rw [e1 (by simp)]
    simp only at h ⊢
    cases hs : evalArgs (applyFn fuel) env as with
    | error e =>
      rw [hs] at h e2
      simp only at h
      rw [e2 h]
    | ok vs =>
      rw [hs] at e2
      rw [e2 (by simp)]

/-- a call whose arguments are refined (same function expression) -/
theorem Refines.call_args {as' as : List Expr} (f : Expr) (p p' : Bool) (h : RefinesArgs as' as) :
    Refines (.call f as' p') (.call f as p) := by
  intro fuel env hne
  have e := h fuel env
  rw [evalWith] at hne ⊢
  rw [evalWith]
  cases ha : evalArgs (applyFn fuel) env as with
  | error err =>
    rw [ha] at hne e
    simp only at hne
    rw [e (by intro hh; injection hh with hh; subst hh; exact hne rfl)]
  | ok vs =>
    rw [ha] at e
    rw [e (by simp)]

/-- one-hole contexts through argument positions of calls -/
inductive ArgCtx where
  | hole
  | arg (f : Expr) (pre : List Expr) (c : ArgCtx) (post : List Expr) (p : Bool)

def ArgCtx.fill : ArgCtx → Expr → Expr
  | .hole, e => e
  | .arg f pre c post p, e => .call f (pre ++ c.fill e :: post) p

theorem RefinesArgs.mid {a' a : Expr} (pre post : List Expr) (h : Refines a' a) :
    RefinesArgs (pre ++ a' :: post) (pre ++ a :: post) := by
  induction pre with
  | nil => exact RefinesArgs.cons h (RefinesArgs.refl post)
  | cons x pre ih => exact RefinesArgs.cons (Refines.refl x) ih

theorem Refines.fill {e' e : Expr} (h : Refines e' e) : ∀ (c : ArgCtx), Refines (c.fill e') (c.fill e)
  | .hole => h
  | .arg f pre c post p => Refines.call_args f p p (RefinesArgs.mid pre post (Refines.fill h c))

/-- `({-> b})` ↦ `b` -/
theorem beta0_refines (b : Expr) (p : Bool) : Refines b (.call (.lam [] b) [] p) := by
  intro fuel env h
  cases fuel with
  | zero => simp [evalWith, evalArgs, applyFn, Val.isCallable] at h
  | succ k =>
    have e : evalWith (applyFn (k + 1)) env (.call (.lam [] b) [] p) = evalWith (applyFn k) env b := by
      simp [evalWith, evalArgs, applyFn, Val.isCallable]
    rw [e] at h ⊢
    exact evalWith_mono (fun f args hh => applyFn_mono k f args hh) b env h

/-- `and [a] [b]` ↦ the query literal (likewise `or`), before flattening -/
theorem build_and_refines (a b : Query) (p : Bool) :
    Refines (.lit (.query (.inter [a, b]))) (.call (.sym "and") [.lit (.query a), .lit (.query b)] p) := by
  intro fuel env h
  cases fuel with
  | zero => exact absurd rfl h
  | succ k => rfl

theorem build_or_refines (a b : Query) (p : Bool) :
    Refines (.lit (.query (.union [a, b]))) (.call (.sym "or") [.lit (.query a), .lit (.query b)] p) := by
  intro fuel env h
  cases fuel with
  | zero => exact absurd rfl h
  | succ k => rfl

/-! well-formedness is the same on both sides -/

def SameStatics (e' e : Expr) : Prop := (∀ bound, wfAt bound e' = wfAt bound e) ∧ e'.numParams = e.numParams

theorem wfsAt_mid {a' a : Expr} (bound : List String) (h : wfAt bound a' = wfAt bound a) :
    ∀ (pre post : List Expr), wfsAt bound (pre ++ a' :: post) = wfsAt bound (pre ++ a :: post)
  | [], post => by simp [wfsAt, h]
  | x :: pre, post => by simp [wfsAt, wfsAt_mid bound h pre post]

theorem numParamss_mid {a' a : Expr} (h : a'.numParams = a.numParams) :
    ∀ (pre post : List Expr), Expr.numParamss (pre ++ a' :: post) = Expr.numParamss (pre ++ a :: post)
  | [], post => by simp [Expr.numParamss, h]
  | x :: pre, post => by simp [Expr.numParamss, numParamss_mid h pre post]

theorem SameStatics.fill {e' e : Expr} (h : SameStatics e' e) : ∀ (c : ArgCtx), SameStatics (c.fill e') (c.fill e)
  | .hole => h
  | .arg f pre c post p => by
    have ih := SameStatics.fill h c
    refine ⟨fun bound => ?_, ?_⟩
    · simp only [ArgCtx.fill, wfAt, wfsAt_mid bound (ih.1 bound) pre post]
    · simp only [ArgCtx.fill, Expr.numParams, numParamss_mid ih.2 pre post]

theorem interp_refines {e' e : Expr} (h : Refines e' e) (hs : SameStatics e' e) (fuel : Nat)
    (hne : interp fuel e ≠ .error .fuel) : interp fuel e' = interp fuel e := by
  have hw : wellFormed e' = wellFormed e := by simp [wellFormed, hs.1 [], hs.2]
  unfold interp at hne ⊢
  rw [hw]
  split
  · rename_i hwf
    simp only [hwf, if_true] at hne
    exact h fuel [] hne
  · rfl

theorem beta0_statics (b : Expr) (p : Bool) : SameStatics b (.call (.lam [] b) [] p) :=
  ⟨fun bound => by simp [wfAt, wfsAt], by simp [Expr.numParams, Expr.numParamss]⟩

theorem build_and_statics (a b : Query) (p : Bool) :
    SameStatics (.lit (.query (.inter [a, b]))) (.call (.sym "and") [.lit (.query a), .lit (.query b)] p) :=
  ⟨fun bound => by simp [wfAt, wfsAt]; rfl, by simp [Expr.numParams, Expr.numParamss]⟩

theorem build_or_statics (a b : Query) (p : Bool) :
    SameStatics (.lit (.query (.union [a, b]))) (.call (.sym "or") [.lit (.query a), .lit (.query b)] p) :=
  ⟨fun bound => by simp [wfAt, wfsAt]; rfl, by simp [Expr.numParams, Expr.numParamss]⟩

end B6.Lemmas.InterpFuel
