import B6.Model.Shell
import B6.Lemmas.FeatureID
import B6.Props.C31
import B6.Lemmas.ShellSpans
/-! The text layer of C20: the model lexer reads back what the model printer's spacing rule writes
(`lex (render toks)`), token by token, with the spans of the printed texts. -/
set_option linter.unusedSimpArgs false
set_option linter.unusedVariables false
namespace B6.Lemmas.ShellLex
open B6.Model.Shell B6.Model.FeatureID

/-! ## scanning helpers -/

/-- the text ends, or goes on with a character the printer puts after a token: a space, a closing bracket,
a comma or `=` -/
def Stops (rest : Bytes) : Prop :=
  rest = [] ∨ ∃ c r, rest = c :: r ∧ (c = 32 ∨ c = 41 ∨ c = 125 ∨ c = 93 ∨ c = 44 ∨ c = 61)

theorem spanWhile_append (p : Nat → Bool) (a rest : Bytes) (ha : ∀ c ∈ a, p c = true)
    (hr : rest = [] ∨ ∃ c r, rest = c :: r ∧ p c = false) : spanWhile p (a ++ rest) = (a, rest) := by
  induction a with
  | nil =>
    rcases hr with rfl | ⟨c, r, rfl, hc⟩
    · rfl
    · simp [spanWhile, hc]
  | cons x xs ih =>
    have hx := ha x (by simp)
    have := ih (fun c hc => ha c (by simp [hc]))
    simp [spanWhile, hx, this]

theorem stops_not {p : Nat → Bool} {rest : Bytes} (h : Stops rest)
    (hp : p 32 = false ∧ p 41 = false ∧ p 125 = false ∧ p 93 = false ∧ p 44 = false ∧ p 61 = false) :
    rest = [] ∨ ∃ c r, rest = c :: r ∧ p c = false := by
  rcases h with rfl | ⟨c, r, rfl, hc⟩
  · exact Or.inl rfl
  · refine Or.inr ⟨c, r, rfl, ?_⟩
    rcases hc with rfl | rfl | rfl | rfl | rfl | rfl
    · exact hp.1
    · exact hp.2.1
    · exact hp.2.2.1
    · exact hp.2.2.2.1
    · exact hp.2.2.2.2.1
    · exact hp.2.2.2.2.2

/-- nothing after a stop looks like the white space or non-ASCII the number scanner worries about -/
theorem stops_head (rest : Bytes) (h : Stops rest) :
    rest.head?.any (fun d => d == 194 || d == 225 || d == 226 || d == 227) = false ∧
    rest.head?.any (· ≥ 128) = false := by
  rcases h with rfl | ⟨c, r, rfl, hc⟩
  · exact ⟨rfl, rfl⟩
  · rcases hc with rfl | rfl | rfl | rfl | rfl | rfl <;> exact ⟨rfl, rfl⟩

/-- digits and dots, up to a stop -/
theorem scan_body : ∀ (body : Bytes) (dec : Bool) (rest : Bytes),
    (∀ c ∈ body, isDigitB c = true ∨ c = 46) →
    (body.filter (· == 46)).length + (if dec then 1 else 0) ≤ 1 → Stops rest →
    scanNumber (body ++ rest) false dec
      = some (body, dec || decide ((body.filter (· == 46)).length = 1), rest)
  | [], dec, rest, _, _, hs => by
    rcases hs with rfl | ⟨c, r, rfl, hc⟩
    · simp [scanNumber]
    · rcases hc with rfl | rfl | rfl | rfl | rfl | rfl <;> simp [scanNumber, isDigitB]
  | c :: cs, dec, rest, hb, hd, hs => by
    have hc := hb c (by simp)
    have hcs : ∀ d ∈ cs, isDigitB d = true ∨ d = 46 := fun d hd' => hb d (by simp [hd'])
    rcases hc with hc | rfl
    · have h45 : (c == 45) = false := by simp [isDigitB] at hc ⊢; omega
      have h46 : (c == 46) = false := by simp [isDigitB] at hc ⊢; omega
      have hf : (List.filter (· == 46) (c :: cs)) = List.filter (· == 46) cs := by simp [List.filter, h46]
      rw [hf] at hd ⊢
      have ih := scan_body cs dec rest hcs hd hs
      simp [scanNumber, h45, h46, hc, ih]
    · have hf : (List.filter (· == 46) (46 :: cs)).length = (List.filter (· == 46) cs).length + 1 := by
        simp [List.filter]
      rw [hf] at hd
      have hdec : dec = false := by cases dec <;> simp_all
      subst hdec
      have hz : (List.filter (· == 46) cs).length = 0 := by
        simp only [Bool.false_eq_true, ↓reduceIte] at hd; omega
      have ih := scan_body cs true rest hcs (by simp [hz]) hs
      simp [scanNumber, ih, hf, hz]

theorem quoteBody_plain : ∀ (s : Bytes),
    (s.all fun c => (32 ≤ c && c ≤ 126 && c ≠ 34 && c ≠ 92) || c ≥ 128) = true → quoteBody s = s
  | [], _ => rfl
  | c :: cs, h => by
    simp only [List.all_cons, Bool.and_eq_true] at h
    have ih := quoteBody_plain cs h.2
    have hc := h.1
    simp only [Bool.or_eq_true, Bool.and_eq_true, decide_eq_true_eq, ne_eq, bne_iff_ne] at hc
    have f1 : (c == 34) = false := by simp; omega
    have f2 : (c == 92) = false := by simp; omega
    have f3 : (c == 7) = false := by simp; omega
    have f4 : (c == 8) = false := by simp; omega
    have f5 : (c == 12) = false := by simp; omega
    have f6 : (c == 10) = false := by simp; omega
    have f7 : (c == 13) = false := by simp; omega
    have f8 : (c == 9) = false := by simp; omega
    have f9 : (c == 11) = false := by simp; omega
    have f10 : (decide (c < 32) || c == 127) = false := by simp; omega
    simp [quoteBody, f1, f2, f3, f4, f5, f6, f7, f8, f9, f10, ih]

theorem plain_no_quote (s : Bytes)
    (h : (s.all fun c => (32 ≤ c && c ≤ 126 && c ≠ 34 && c ≠ 92) || c ≥ 128) = true) :
    ∀ c ∈ s, (fun x : Nat => decide (x ≠ 34)) c = true := by
  intro c hc
  have := List.all_eq_true.mp h c hc
  simp only [Bool.or_eq_true, Bool.and_eq_true, decide_eq_true_eq, ne_eq, bne_iff_ne] at this
  simp; omega

/-! ## one token -/

/-- what `lexFuel` does with the text of `t` followed by `rest` -/
def LexesAs (t : Tok) (rest : Bytes) : Prop :=
  ∀ F pos, lexFuel (F + 1) (t.text ++ rest) pos
    = consTok t pos t.text.length (lexFuel F rest (pos + t.text.length))

theorem lex_arrow (rest : Bytes) : LexesAs .arrow rest := by
  intro F pos
  simp [Tok.text, lexFuel, isSpace]

theorem lex_punct (c : Nat) (h : isPunct c = true) (rest : Bytes) : LexesAs (.p c) rest := by
  intro F pos
  simp only [isPunct, Bool.or_eq_true, beq_iff_eq] at h
  rcases h with ((((((((((rfl | rfl) | rfl) | rfl) | rfl) | rfl) | rfl) | rfl) | rfl) | rfl) | rfl) | rfl <;>
    simp [Tok.text, lexFuel, isSpace, isPunct]

theorem lex_str (s : Bytes) (h : (Tok.str s).lexable = true) (rest : Bytes) : LexesAs (.str s) rest := by
  intro F pos
  simp only [Tok.lexable] at h
  have hq := quoteBody_plain s h
  have hsp : spanWhile (fun x => !decide (x = 34)) (s ++ 34 :: rest) = (s, 34 :: rest) := by
    apply spanWhile_append
    · intro c hc
      have := plain_no_quote s h c hc
      simpa using this
    · exact Or.inr ⟨34, rest, rfl, by simp⟩
  simp only [Tok.text, hq, List.cons_append, List.nil_append, List.append_assoc, lexFuel]
  simp [isSpace, isPunct, hsp]

theorem letter_facts (c : Nat) (h : isLetter c = true) :
    isSpace c = false ∧ (c == 45) = false ∧ isPunct c = false ∧ (c == 34) = false ∧ (c == 47) = false ∧
    (c == 35) = false ∧ (c == 64) = false ∧ isDigitB c = false ∧ (c == 46) = false ∧ isSymbolRune c = true := by
  simp only [isLetter, Bool.or_eq_true, Bool.and_eq_true, decide_eq_true_eq] at h
  simp only [isSpace, isPunct, isDigitB, isSymbolRune, Bool.or_eq_false_iff, Bool.and_eq_false_iff,
    beq_eq_false_iff_ne, ne_eq, decide_eq_false_iff_not, Bool.or_eq_true, Bool.and_eq_true, decide_eq_true_eq,
    beq_iff_eq]
  omega

theorem stop_facts : isSymbolRune 32 = false ∧ isSymbolRune 41 = false ∧ isSymbolRune 125 = false ∧
    isSymbolRune 93 = false ∧ isSymbolRune 44 = false ∧ isSymbolRune 61 = false := by decide

theorem stop_facts_id : isIDByte 32 = false ∧ isIDByte 41 = false ∧ isIDByte 125 = false ∧
    isIDByte 93 = false ∧ isIDByte 44 = false ∧ isIDByte 61 = false := by decide

theorem lex_sym (s : Bytes) (h : (Tok.sym s).lexable = true) (rest : Bytes) (hs : Stops rest) :
    LexesAs (.sym s) rest := by
  intro F pos
  cases s with
  | nil => simp [Tok.lexable] at h
  | cons c r =>
    simp only [Tok.lexable, Bool.and_eq_true] at h
    obtain ⟨f1, f2, f3, f4, f5, f6, f7, f8, f9, f10⟩ := letter_facts c h.1
    have hall : ∀ x ∈ c :: r, isSymbolRune x = true := by
      intro x hx
      simp only [List.mem_cons] at hx
      rcases hx with rfl | hx
      · exact f10
      · exact List.all_eq_true.mp h.2 x hx
    have hsp := spanWhile_append isSymbolRune (c :: r) rest hall (stops_not hs stop_facts)
    simp only [List.cons_append] at hsp
    simp only [Tok.text, List.cons_append, lexFuel]
    simp [f1, f2, f3, f4, f5, f6, f7, f8, f9, h.1, hsp]

theorem lex_tagKey (s : Bytes) (h : (Tok.tagKey s).lexable = true) (rest : Bytes) (hs : Stops rest) :
    LexesAs (.tagKey s) rest := by
  intro F pos
  cases s with
  | nil => simp [Tok.lexable] at h
  | cons c body =>
    simp only [Tok.lexable, Bool.and_eq_true, Bool.or_eq_true, beq_iff_eq] at h
    have hsp := spanWhile_append isSymbolRune body rest (fun x hx => List.all_eq_true.mp h.2 x hx)
      (stops_not hs stop_facts)
    rcases h.1 with rfl | rfl <;>
      (simp only [Tok.text, List.cons_append, lexFuel]
       simp [isSpace, isPunct, hsp])

/-! ### numbers -/

theorem digit_facts (c : Nat) (h : isDigitB c = true) :
    isSpace c = false ∧ (c == 45) = false ∧ isPunct c = false ∧ (c == 34) = false ∧ (c == 47) = false ∧
    (c == 35) = false ∧ (c == 64) = false ∧ (c == 46) = false := by
  simp only [isDigitB, Bool.and_eq_true, decide_eq_true_eq] at h
  simp only [isSpace, isPunct, Bool.or_eq_false_iff, Bool.and_eq_false_iff, beq_eq_false_iff_ne, ne_eq,
    decide_eq_false_iff_not]
  omega

/-- the result of the numeric branch of `lexFuel`, given what `scanNumber` found -/
def numberResult (F pos : Nat) (scan : Option (Bytes × Bool × Bytes)) : LR :=
  match scan with
  | none => .err
  | some (text, dec, after) =>
    if after.head?.any (· ≥ 128) && !((decodeRune after).any fun (r, _) => isSpaceRune r) then .err else
    if dec then (if floatTextOK text then consTok (.float text) pos text.length (lexFuel F after (pos + text.length)) else .err)
    else match atoi text with
      | some i => consTok (.int i) pos text.length (lexFuel F after (pos + text.length))
      | none => .err

/-- a digit, a dot, or a minus that is not the start of `->` sends the lexer to `lexNumericLiteral` -/
theorem number_branch (c : Nat) (cs : Bytes)
    (hc : isDigitB c = true ∨ c = 46 ∨ (c = 45 ∧ cs.head? ≠ some 62)) (F pos : Nat) :
    lexFuel (F + 1) (c :: cs) pos = numberResult F pos (scanNumber (c :: cs) true false) := by
  rcases hc with hc | rfl | ⟨rfl, h62⟩
  · obtain ⟨f1, f2, f3, f4, f5, f6, f7, f8⟩ := digit_facts c hc
    simp only [lexFuel, numberResult]
    simp only [f1, f2, f3, f4, f5, f6, f7, f8, hc, Bool.false_eq_true, ↓reduceIte, Bool.false_and,
      Bool.true_or, Bool.or_true]
    cases scanNumber (c :: cs) true false with
    | none => rfl
    | some y => obtain ⟨t, d, a⟩ := y; rfl
  · simp only [lexFuel, numberResult]
    simp only [isSpace, isPunct, isDigitB, Bool.false_eq_true, ↓reduceIte]
    simp
    cases scanNumber (46 :: cs) true false with
    | none => rfl
    | some y => obtain ⟨t, d, a⟩ := y; rfl
  · simp only [lexFuel, numberResult]
    simp [isSpace, isPunct, isDigitB, h62]
    cases scanNumber (45 :: cs) true false with
    | none => rfl
    | some y => obtain ⟨t, d, a⟩ := y; rfl

/-- scanning an optional minus followed by digits and at most one dot, up to a stop -/
theorem scan_text (neg : Bool) (body rest : Bytes) (hne : body ≠ [])
    (hb : ∀ c ∈ body, isDigitB c = true ∨ c = 46) (hd : (body.filter (· == 46)).length ≤ 1) (hs : Stops rest) :
    scanNumber ((if neg then [45] else []) ++ body ++ rest) true false
      = some ((if neg then [45] else []) ++ body, decide ((body.filter (· == 46)).length = 1), rest) := by
  have hbody := scan_body body false rest hb (by simpa using hd) hs
  cases neg with
  | true =>
    simp [scanNumber, hbody]
  | false =>
    cases body with
    | nil => exact absurd rfl hne
    | cons c cs =>
      have hc := hb c (by simp)
      have h45 : (c == 45) = false := by
        rcases hc with hc | rfl
        · exact (digit_facts c hc).2.1
        · rfl
      have : scanNumber (c :: (cs ++ rest)) true false = scanNumber (c :: (cs ++ rest)) false false := by
        simp [scanNumber, h45]
      simp only [Bool.false_eq_true, ↓reduceIte, List.nil_append, List.cons_append, this]
      simpa using hbody

theorem dec_head (n : Nat) : ∃ d ds, dec n = d :: ds ∧ isDigitB d = true := by
  cases h : dec n with
  | nil => exact absurd h (B6.Lemmas.FeatureID.dec_ne_nil n)
  | cons d ds =>
    have := B6.Lemmas.FeatureID.dec_digits n d (by rw [h]; simp)
    exact ⟨d, ds, rfl, by simp [isDigitB]; omega⟩

theorem dec_all_digits (n : Nat) : ∀ c ∈ dec n, isDigitB c = true ∨ c = 46 := by
  intro c hc
  have := B6.Lemmas.FeatureID.dec_digits n c hc
  left; simp [isDigitB]; omega

theorem dec_no_dot (n : Nat) : ((dec n).filter (· == 46)).length = 0 := by
  simp only [List.length_eq_zero_iff, List.filter_eq_nil_iff]
  intro c hc
  have := B6.Lemmas.FeatureID.dec_digits n c hc
  simp; omega

theorem atoi_neg_dec (n : Nat) (h : n ≤ 2 ^ 63) (hn : 0 < n) : atoi (45 :: dec n) = some (-(n : Int)) := by
  have hp := B6.Lemmas.FeatureID.parseUint_dec n (by omega)
  have h3 : ¬ n > 2 ^ 63 := by omega
  simp [atoi, hp, h3]

theorem lex_int (i : Int) (h : (Tok.int i).lexable = true) (rest : Bytes) (hs : Stops rest) :
    LexesAs (.int i) rest := by
  intro F pos
  simp only [Tok.lexable, Bool.and_eq_true, decide_eq_true_eq] at h
  obtain ⟨d, ds, hdec, hd⟩ := dec_head i.natAbs
  have hh := stops_head rest hs
  by_cases hneg : i < 0
  · have htext : (Tok.int i).text = 45 :: dec i.natAbs := by simp [Tok.text, hneg, digitsOf]
    have hscan := scan_text true (dec i.natAbs) rest (B6.Lemmas.FeatureID.dec_ne_nil _) (dec_all_digits _)
      (by rw [dec_no_dot]; omega) hs
    simp only [↓reduceIte, List.cons_append, List.nil_append, dec_no_dot] at hscan
    have hat : atoi (45 :: dec i.natAbs) = some i := by
      rw [atoi_neg_dec i.natAbs (by omega) (by omega)]
      congr 1; omega
    rw [htext]
    simp only [List.cons_append]
    rw [number_branch 45 _ (Or.inr (Or.inr ⟨rfl, by rw [hdec]; simp; intro e; subst e; simp [isDigitB] at hd⟩)) F pos]
    simp only [hscan, numberResult, hh.1, hh.2, Bool.false_eq_true, ↓reduceIte, hat]
    simp
  · have htext : (Tok.int i).text = dec i.natAbs := by simp [Tok.text, hneg, digitsOf]
    have hscan := scan_text false (dec i.natAbs) rest (B6.Lemmas.FeatureID.dec_ne_nil _) (dec_all_digits _)
      (by rw [dec_no_dot]; omega) hs
    simp only [Bool.false_eq_true, ↓reduceIte, List.nil_append, dec_no_dot] at hscan
    have hat : atoi (dec i.natAbs) = some i := by
      rw [B6.Lemmas.FeatureID.atoi_dec i.natAbs (by omega)]
      congr 1; omega
    rw [htext]
    rw [hdec] at hscan ⊢
    simp only [List.cons_append] at hscan ⊢
    rw [number_branch d _ (Or.inl hd) F pos]
    rw [hdec] at hat
    simp only [hscan, numberResult, hh.1, hh.2, Bool.false_eq_true, ↓reduceIte, hat]
    simp

theorem lex_float (t : Bytes) (h : (Tok.float t).lexable = true) (rest : Bytes) (hs : Stops rest) :
    LexesAs (.float t) rest := by
  intro F pos
  have hh := stops_head rest hs
  simp only [Tok.lexable] at h
  cases t with
  | nil => simp [floatShape] at h
  | cons c cs =>
    by_cases hc45 : c = 45
    · subst hc45
      simp only [floatShape, List.head?_cons, Option.some_beq_some, beq_self_eq_true, ↓reduceIte,
        List.drop_succ_cons, List.drop_zero, Bool.and_eq_true, beq_iff_eq] at h
      obtain ⟨⟨hany, hall⟩, hdots⟩ := h
      have hb : ∀ x ∈ cs, isDigitB x = true ∨ x = 46 := by
        intro x hx
        have := List.all_eq_true.mp hall x hx
        simpa using this
      have hne : cs ≠ [] := by intro e; subst e; simp at hany
      have hscan := scan_text true cs rest hne hb (by omega) hs
      simp only [↓reduceIte, List.cons_append, List.nil_append, hdots, decide_true] at hscan
      have hok : floatTextOK (45 :: cs) = true := by
        simp only [floatTextOK, List.head?_cons, Option.some_beq_some, beq_self_eq_true, ↓reduceIte,
          List.drop_succ_cons, List.drop_zero, Bool.and_eq_true]; exact ⟨hany, hall⟩
      have hhead : (cs ++ rest).head? ≠ some 62 := by
        cases cs with
        | nil => exact absurd rfl hne
        | cons x xs =>
          simp only [List.cons_append, List.head?_cons, ne_eq, Option.some.injEq]
          rcases hb x (by simp) with hx | rfl
          · intro e; subst e; simp [isDigitB] at hx
          · omega
      simp only [Tok.text, List.cons_append]
      rw [number_branch 45 _ (Or.inr (Or.inr ⟨rfl, hhead⟩)) F pos]
      simp only [hscan, numberResult, hh.1, hh.2, Bool.false_eq_true, ↓reduceIte, hok, Bool.false_and]
    · have hne45 : (c == 45) = false := by simpa using hc45
      simp only [floatShape, List.head?_cons, Option.some.injEq, beq_iff_eq, hc45, ↓reduceIte,
        Bool.and_eq_true, Option.some_beq_some, hne45, Bool.false_eq_true] at h
      obtain ⟨⟨hany, hall⟩, hdots⟩ := h
      have hb : ∀ x ∈ c :: cs, isDigitB x = true ∨ x = 46 := by
        intro x hx
        have := List.all_eq_true.mp hall x hx
        simpa using this
      have hscan := scan_text false (c :: cs) rest (by simp) hb (by omega) hs
      simp only [Bool.false_eq_true, ↓reduceIte, List.cons_append, List.nil_append, hdots, decide_true] at hscan
      have hok : floatTextOK (c :: cs) = true := by
        simp only [floatTextOK, List.head?_cons, Option.some_beq_some, hne45, Bool.false_eq_true, ↓reduceIte,
          Bool.and_eq_true]; exact ⟨hany, hall⟩
      have hc : isDigitB c = true ∨ c = 46 := hb c (by simp)
      simp only [Tok.text, List.cons_append]
      rw [number_branch c _ (by rcases hc with hc | hc; exact Or.inl hc; exact Or.inr (Or.inl hc)) F pos]
      simp only [hscan, numberResult, hh.1, hh.2, Bool.false_eq_true, ↓reduceIte, hok, Bool.false_and]

/-! ### feature IDs -/

theorem unparse_head (f : FeatureID) : ∃ r, unparse f true = 47 :: r := by
  simp only [unparse, ↓reduceIte]
  cases hfind : findByID f aliases with
  | none => exact ⟨_, rfl⟩
  | some a =>
    simp only
    split
    · obtain ⟨hmem, hns⟩ := B6.Props.C31.findByID_mem f aliases a hfind
      obtain ⟨rest, hrest⟩ := B6.Props.C31.toToken_pre a f hns hmem
      rw [hrest]
      simp only [aliases, List.mem_cons, List.not_mem_nil, or_false] at hmem
      rcases hmem with rfl | rfl | rfl | rfl | rfl | rfl | rfl <;> exact ⟨_, rfl⟩
    · exact ⟨_, rfl⟩

theorem idByte_ascii (c : Nat) (h : isIDByte c = true) : c < 128 := by
  simp only [isIDByte, isLetter, isDigitB, Bool.or_eq_true, Bool.and_eq_true, decide_eq_true_eq, beq_iff_eq] at h
  omega

theorem spanID_stop (rest : Bytes) (hs : Stops rest) (F : Nat) : spanID F rest = ([], rest, false) := by
  have hs' : rest = [] ∨ ∃ c r, rest = c :: r ∧ c < 128 ∧ isIDByte c = false := by
    rcases hs with rfl | ⟨c, r, rfl, hc⟩
    · exact Or.inl rfl
    · refine Or.inr ⟨c, r, rfl, ?_⟩
      rcases hc with rfl | rfl | rfl | rfl | rfl | rfl <;> exact ⟨by omega, by decide⟩
  rcases hs' with rfl | ⟨c, r, rfl, hlt, hf⟩
  · cases F <;> rfl
  · cases F with
    | zero => rfl
    | succ F =>
      unfold spanID
      simp only [hlt, hf, ↓reduceIte, Bool.false_eq_true]

/-- on ASCII the rune scan of `lexFeatureIDLiteral` is the byte scan -/
theorem spanID_ascii (a rest : Bytes) (ha : ∀ c ∈ a, isIDByte c = true) (hs : Stops rest) :
    ∀ (F : Nat), a.length + rest.length ≤ F → spanID F (a ++ rest) = (a, rest, false) := by
  induction a with
  | nil => intro F _; exact spanID_stop rest hs F
  | cons c cs ih =>
    intro F hF
    cases F with
    | zero => simp at hF
    | succ F =>
      have hc := ha c (by simp)
      have ih' := ih (fun x hx => ha x (by simp [hx])) F (by simp at hF; omega)
      have hlt := idByte_ascii c hc
      show spanID (F + 1) (c :: (cs ++ rest)) = (c :: cs, rest, false)
      unfold spanID
      simp only [hlt, hc, ↓reduceIte, ih']

theorem lex_id (f : FeatureID) (h : (Tok.id f).lexable = true) (rest : Bytes) (hs : Stops rest) :
    LexesAs (.id f) rest := by
  intro F pos
  simp only [Tok.lexable, Bool.and_eq_true, decide_eq_true_eq] at h
  obtain ⟨⟨hvalid, hv⟩, hall⟩ := h
  obtain ⟨r, hu⟩ := unparse_head f
  have hsp := spanID_ascii (unparse f true) rest
    (fun x hx => List.all_eq_true.mp hall x hx) hs ((unparse f true) ++ rest).length (by simp)
  have hparse := B6.Props.C31.alias_roundtrip f hv hvalid true
  simp only [Tok.text]
  rw [hu] at hsp hparse ⊢
  simp only [List.cons_append, List.length_cons, List.length_append] at hsp ⊢
  simp only [lexFuel]
  simp [isSpace, isPunct, hsp, hparse]

/-! ## a whole token list -/

/-- the separator the printer's spacing rule puts between two tokens -/
def sep (t u : Tok) : Bytes := if opens t || closes u || isEq t || isEq u then [] else [32]

theorem render_cons2 (t u : Tok) (rest : List Tok) :
    render (t :: u :: rest) = t.text ++ sep t u ++ render (u :: rest) := rfl

theorem render_head (u : Tok) (rest : List Tok) : ∃ tl, render (u :: rest) = u.text ++ tl := by
  cases rest with
  | nil => exact ⟨[], by simp [render]⟩
  | cons v vs => exact ⟨sep u v ++ render (v :: vs), by rw [render_cons2, List.append_assoc]⟩

/-- where the printed tokens sit in the printed text -/
def place : List Tok → Nat → List PTok
  | [], _ => []
  | [t], pos => [⟨t, pos, pos + t.text.length⟩]
  | t :: u :: rest, pos =>
    ⟨t, pos, pos + t.text.length⟩ :: place (u :: rest) (pos + t.text.length + (sep t u).length)

/-- lexer steps: one per token and one per space -/
def cost : List Tok → Nat
  | [] => 0
  | [_] => 1
  | t :: u :: rest => 1 + (sep t u).length + cost (u :: rest)

def isBracket : Tok → Bool
  | .p _ => true
  | .arrow => true
  | _ => false

theorem lexesAs_of (t : Tok) (h : t.lexable = true) (rest : Bytes) (hs : isBracket t = true ∨ Stops rest) :
    LexesAs t rest := by
  cases t with
  | sym s => exact lex_sym s h rest (hs.resolve_left (by simp [isBracket]))
  | str s => exact lex_str s h rest
  | int i => exact lex_int i h rest (hs.resolve_left (by simp [isBracket]))
  | float x => exact lex_float x h rest (hs.resolve_left (by simp [isBracket]))
  | id f => exact lex_id f h rest (hs.resolve_left (by simp [isBracket]))
  | tagKey s => exact lex_tagKey s h rest (hs.resolve_left (by simp [isBracket]))
  | arrow => exact lex_arrow rest
  | p c => exact lex_punct c h rest

/-- after a token that is not a bracket the spacing rule leaves a space, a closing bracket, a comma or `=` -/
theorem stops_after (t u : Tok) (tl : Bytes) (hb : isBracket t = false) :
    Stops (sep t u ++ (u.text ++ tl)) := by
  unfold sep
  by_cases hc : (opens t || closes u || isEq t || isEq u) = true
  · simp only [hc, ↓reduceIte, List.nil_append]
    have ht1 : opens t = false := by cases t <;> simp_all [opens, isBracket]
    have ht2 : isEq t = false := by cases t <;> simp_all [isEq, isBracket]
    simp only [ht1, ht2, Bool.false_or, Bool.or_false, Bool.or_eq_true] at hc
    rcases hc with hc | hc
    · simp only [closes, Bool.or_eq_true, beq_iff_eq] at hc
      rcases hc with ((rfl | rfl) | rfl) | rfl <;> exact Or.inr ⟨_, _, rfl, by simp⟩
    · simp only [isEq, beq_iff_eq] at hc
      subst hc
      exact Or.inr ⟨_, _, rfl, by simp⟩
  · simp only [hc, Bool.false_eq_true, ↓reduceIte]
    exact Or.inr ⟨32, _, rfl, Or.inl rfl⟩

theorem lex_space (F : Nat) (rest : Bytes) (pos : Nat) :
    lexFuel (F + 1) (32 :: rest) pos = lexFuel F rest (pos + 1) := by
  simp [lexFuel, isSpace]

theorem lex_render_fuel : ∀ (ts : List Tok), (∀ t ∈ ts, t.lexable = true) → ∀ F pos,
    lexFuel (F + cost ts + 1) (render ts) pos = .ok (place ts pos)
  | [], _, F, pos => by simp [cost, render, place, lexFuel]
  | [t], h, F, pos => by
    have ht := h t (by simp)
    have := lexesAs_of t ht [] (Or.inr (Or.inl rfl)) (F + 1) pos
    simp only [List.append_nil] at this
    simp only [cost, render, place]
    rw [show F + 1 + 1 = (F + 1) + 1 from rfl, this]
    simp [lexFuel, consTok]
  | t :: u :: rest, h, F, pos => by
    have ht := h t (by simp)
    have ih := lex_render_fuel (u :: rest) (fun x hx => h x (by simp [hx]))
    obtain ⟨tl, htl⟩ := render_head u rest
    rw [render_cons2, List.append_assoc]
    have hstop : isBracket t = true ∨ Stops (sep t u ++ render (u :: rest)) := by
      cases hb : isBracket t with
      | true => exact Or.inl rfl
      | false => rw [htl]; exact Or.inr (stops_after t u tl hb)
    have hlex := lexesAs_of t ht (sep t u ++ render (u :: rest)) hstop
    simp only [cost, place]
    unfold sep at hlex ⊢
    by_cases hc : (opens t || closes u || isEq t || isEq u) = true
    · simp only [hc, ↓reduceIte, List.nil_append, List.length_nil, Nat.add_zero] at hlex ⊢
      rw [show F + (1 + cost (u :: rest)) + 1 = (F + cost (u :: rest) + 1) + 1 by omega, hlex, ih]
      simp [consTok]
    · simp only [hc, Bool.false_eq_true, ↓reduceIte, List.length_singleton, List.cons_append,
        List.nil_append] at hlex ⊢
      rw [show F + (1 + 1 + cost (u :: rest)) + 1 = ((F + cost (u :: rest) + 1) + 1) + 1 by omega, hlex,
        lex_space, ih]
      simp [consTok, Nat.add_assoc]

theorem text_pos (t : Tok) (h : t.lexable = true) : 0 < t.text.length := by
  cases t with
  | sym s => cases s <;> simp_all [Tok.lexable, Tok.text]
  | str s => simp [Tok.text]
  | int i =>
    simp only [Tok.text, digitsOf]
    obtain ⟨d, ds, hd, _⟩ := dec_head i.natAbs
    split <;> simp [hd]
  | float x => cases x <;> simp_all [Tok.lexable, Tok.text, floatShape]
  | id f => obtain ⟨r, hr⟩ := unparse_head f; simp [Tok.text, hr]
  | tagKey s => cases s <;> simp_all [Tok.lexable, Tok.text]
  | arrow => simp [Tok.text]
  | p c => simp [Tok.text]

theorem cost_le : ∀ (ts : List Tok), (∀ t ∈ ts, t.lexable = true) → cost ts ≤ (render ts).length
  | [], _ => by simp [cost]
  | [t], h => by have := text_pos t (h t (by simp)); simp [cost, render]; omega
  | t :: u :: rest, h => by
    have := text_pos t (h t (by simp))
    have ih := cost_le (u :: rest) (fun x hx => h x (by simp [hx]))
    rw [render_cons2]
    simp only [cost, List.length_append]
    omega

/-- **The lexer reads back what the printer writes**: for tokens that are each lexable, the text produced by the
spacing rule lexes to exactly those tokens, at the places where their texts were written. -/
theorem lex_render (ts : List Tok) (h : ∀ t ∈ ts, t.lexable = true) : lex (render ts) = .ok (place ts 0) := by
  have hle := cost_le ts h
  have := lex_render_fuel ts h ((render ts).length - cost ts) 0
  unfold lex
  rw [show (render ts).length + 1 = (render ts).length - cost ts + cost ts + 1 by omega]
  exact this

/-! ## what `place` says -/

theorem toks_place : ∀ (ts : List Tok) (pos : Nat), (place ts pos).map (·.tok) = ts
  | [], _ => rfl
  | [t], _ => rfl
  | t :: u :: rest, pos => by simp [place, toks_place (u :: rest)]

theorem sorted_place : ∀ (ts : List Tok) (pos lo : Nat), lo ≤ pos → B6.Lemmas.ShellSpans.Sorted lo (place ts pos)
  | [], _, _, _ => trivial
  | [t], pos, lo, h => ⟨h, by simp, trivial⟩
  | t :: u :: rest, pos, lo, h =>
    ⟨h, by simp, sorted_place (u :: rest) _ _ (by simp)⟩

/-- every placed token's span holds exactly that token's text -/
theorem slices_place : ∀ (ts : List Tok) (pos : Nat), ∀ pt ∈ place ts pos,
    pos ≤ pt.b ∧ pt.e = pt.b + pt.tok.text.length ∧
      ((render ts).drop (pt.b - pos)).take (pt.e - pt.b) = pt.tok.text
  | [], _, pt, h => by simp [place] at h
  | [t], pos, pt, h => by
    simp only [place, List.mem_singleton] at h
    subst h
    simp [render]
  | t :: u :: rest, pos, pt, h => by
    simp only [place, List.mem_cons] at h
    rcases h with rfl | h
    · simp only [Nat.le_refl, Nat.sub_self, List.drop_zero, true_and]
      rw [render_cons2, List.append_assoc]
      simp
    · obtain ⟨h1, h2, h3⟩ := slices_place (u :: rest) _ pt h
      refine ⟨by omega, h2, ?_⟩
      rw [render_cons2]
      have e : pt.b - pos = (t.text ++ sep t u).length + (pt.b - (pos + t.text.length + (sep t u).length)) := by
        simp only [List.length_append]; omega
      rw [e, List.drop_append]
      simp only [Nat.add_sub_cancel_left, List.drop_eq_nil_of_le (Nat.le_add_right _ _), List.nil_append]
      exact h3

end B6.Lemmas.ShellLex
