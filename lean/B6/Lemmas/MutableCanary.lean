import B6.Lemmas.MutableRoot
/-!
Lock-step simulation of `MergedChange`'s canary (a fresh overlay over the world's view) and the world
itself, on what validation reads: geometry skeletons and locations (C13 `canary_faithful_of_refs`).
-/
namespace B6.Model.Mutable

/-! ## what validation reads -/

def pointOfG : Geom → Option Pt
  | .point p => some p
  | _ => none

theorem pointOf_eq (f : Feature) : pointOf f = pointOfG f.geom := by
  unfold pointOf pointOfG; cases f.geom <;> rfl

/-- the geometry skeleton the world shows under an id -/
def geomOf (v : View) (id : Id) : Option Geom := (v.find id).map (·.f.geom)

/-- locations are the locations of the points the world shows -/
def View.LocOK (v : View) : Prop := ∀ id, v.loc id = (geomOf v id).bind pointOfG

/-- `ValidateFeature` only looks at the geometry of the feature -/
def validateG (v : View) (o : Oracle) : Geom → Bool
  | .point _ => true
  | .path ps => validatePath v o ps
  | .area ps => validateArea v ps
  | .relation _ => true
  | .collection _ => true

theorem validate_eq (v : View) (o : Oracle) (f : Feature) : validate v o f = validateG v o f.geom := by
  unfold validate validateG; cases f.geom <;> rfl

theorem validateG_congr {v v' : View} (hl : v'.loc = v.loc) (hg : ∀ id, geomOf v' id = geomOf v id) (o : Oracle)
    (g : Geom) : validateG v' o g = validateG v o g := by
  cases g with
  | point p => rfl
  | path ps => simp only [validateG, validatePath, hl]
  | area ps =>
    simp only [validateG, validateArea, hl]
    congr 1
    funext id
    have := hg id
    simp only [geomOf] at this
    rw [this]
  | relation ms => rfl
  | collection ks => rfl

/-! ## geometry and locations of a layered world -/

def layerGeom (feats : List (Id × Feature)) (b : View) (id : Id) : Option Geom :=
  match AMap.get feats id with
  | some f => some f.geom
  | none => geomOf b id

def layerLoc (feats : List (Id × Feature)) (b : View) (id : Id) : Option Pt :=
  match AMap.get feats id with
  | some f => pointOfG f.geom
  | none => b.loc id

theorem geomOf_view (b : View) (ll : Id → Option Pt) (l : Layer) (id : Id) :
    geomOf (l.view b ll) id = layerGeom l.feats b id := by
  unfold layerGeom geomOf
  rw [find_view]
  cases h : AMap.get l.feats id with
  | some f => simp [find_overlay h]
  | none =>
    rw [find_base h]
    cases b.find id <;> simp [Layer.wrap]

theorem loc_view (b : View) (ll : Id → Option Pt) (l : Layer) (id : Id) :
    (l.view b ll).loc id = layerLoc l.feats b id := by
  show l.loc b id = _
  unfold Layer.loc layerLoc
  cases h : AMap.get l.feats id with
  | some f => simp [pointOf_eq]
  | none => rfl

theorem view_locOK {b : View} (hb : b.LocOK) (l : Layer) (ll : Id → Option Pt) : (l.view b ll).LocOK := by
  intro id
  rw [loc_view, geomOf_view]
  unfold layerLoc layerGeom
  cases h : AMap.get l.feats id with
  | some f => rfl
  | none => exact hb id

theorem layerGeom_congr {feats feats' : List (Id × Feature)} {b : View} {id : Id}
    (h : AMap.get feats' id = AMap.get feats id) : layerGeom feats' b id = layerGeom feats b id ∧
      layerLoc feats' b id = layerLoc feats b id := by
  simp [layerGeom, layerLoc, h]

/-- agreement of two worlds on everything validation reads -/
structure GAgree (v v' : View) : Prop where
  loc : v'.loc = v.loc
  geom : ∀ id, geomOf v' id = geomOf v id

theorem GAgree.isSome {v v' : View} (h : GAgree v v') (id : Id) : (v'.find id).isSome = (v.find id).isSome := by
  have := h.geom id
  simp only [geomOf] at this
  cases h1 : v'.find id <;> cases h2 : v.find id <;> simp [h1, h2] at this ⊢

/-- a state of a world object, seen through what validation reads -/
def SameG (b : View) (l l' : Layer) : Prop :=
  ∀ id, layerGeom l'.feats b id = layerGeom l.feats b id ∧ layerLoc l'.feats b id = layerLoc l.feats b id

theorem sameG_of_same {b : View} {l l' : Layer} (h : l.Same l') : SameG b l l' :=
  fun id => layerGeom_congr (h.feats id)

/-- tag edits do not touch geometry -/
theorem sameG_addTag {b : View} {l l' : Layer} {id : Id} {tag : Tag} (hb : b.IdsOK) (hbl : b.LocOK)
    (hl : l.FeatsId) (h : l.addTag b id tag = .ok l') : SameG b l l' := by
  intro id'
  unfold Layer.addTag at h
  cases hf : AMap.get l.feats id with
  | some f =>
    simp only [hf, Except.ok.injEq] at h
    subst h
    simp only [layerGeom, layerLoc, AMap.get_set]
    by_cases hid : id' = id
    · subst hid; simp [hf]
    · simp [hid]
  | none =>
    simp only [hf] at h
    cases hv : l.find b id with
    | none => simp [hv] at h
    | some fv =>
      simp only [hv] at h
      have hfid : fv.f.id = id := view_idsOK hb hl (l.loc b) id fv (by rw [find_view]; exact hv)
      have hg : layerGeom l.feats b id = some fv.f.geom := by
        rw [← geomOf_view b (l.loc b)]; simp [geomOf, find_view, hv]
      have hlo : layerLoc l.feats b id = pointOfG fv.f.geom := by
        have := view_locOK hbl l (l.loc b) id
        rw [loc_view, geomOf_view, hg] at this
        exact this
      split at h
      · cases h
        simp only [Layer.adopt, hfid, layerGeom, layerLoc, AMap.get_set]
        by_cases hid : id' = id
        · subst hid
          simp only [↓reduceIte]
          exact ⟨hg.symm, hlo.symm⟩
        · simp [hid]
      · cases h; exact ⟨rfl, rfl⟩

theorem sameG_removeTag {b : View} {l l' : Layer} {id : Id} {key : Key} (hb : b.IdsOK) (hbl : b.LocOK)
    (hl : l.FeatsId) (h : l.removeTag b id key = .ok l') : SameG b l l' := by
  intro id'
  unfold Layer.removeTag at h
  cases hf : AMap.get l.feats id with
  | some f =>
    simp only [hf, Except.ok.injEq] at h
    subst h
    simp only [layerGeom, layerLoc, AMap.get_set]
    by_cases hid : id' = id
    · subst hid; simp [hf]
    · simp [hid]
  | none =>
    simp only [hf] at h
    cases hv : l.find b id with
    | none => simp [hv] at h
    | some fv =>
      simp only [hv] at h
      have hfid : fv.f.id = id := view_idsOK hb hl (l.loc b) id fv (by rw [find_view]; exact hv)
      have hg : layerGeom l.feats b id = some fv.f.geom := by
        rw [← geomOf_view b (l.loc b)]; simp [geomOf, find_view, hv]
      have hlo : layerLoc l.feats b id = pointOfG fv.f.geom := by
        have := view_locOK hbl l (l.loc b) id
        rw [loc_view, geomOf_view, hg] at this
        exact this
      split at h
      · cases h; exact ⟨rfl, rfl⟩
      · split at h
        · cases h
          simp only [Layer.adopt, hfid, layerGeom, layerLoc, AMap.get_set]
          by_cases hid : id' = id
          · subst hid
            simp only [↓reduceIte]
            exact ⟨hg.symm, hlo.symm⟩
          · simp [hid]
        · cases h; exact ⟨rfl, rfl⟩

/-- the temporary replacement, seen through what validation reads: `f` under `f.id`, the rest as before -/
theorem geom_putTmp (b : View) (l : Layer) (f : Feature) (id : Id) :
    layerGeom (l.putTmp f).feats b id = (if id = f.id then some f.geom else layerGeom l.feats b id) ∧
    layerLoc (l.putTmp f).feats b id = (if id = f.id then pointOfG f.geom else layerLoc l.feats b id) := by
  simp only [Layer.putTmp, layerGeom, layerLoc, AMap.get_set]
  by_cases h : id = f.id <;> simp [h]

/-- an accepted `AddFeature`, seen through what validation reads: whichever referrers were copied -/
theorem geom_commit {b : View} {l : Layer} {f : Feature} {rs : List FV} (hbl : b.LocOK)
    (hrs : ∀ r ∈ rs, l.find b r.f.id = some r) (id : Id) :
    layerGeom (l.commit f rs).feats b id = (if id = f.id then some f.geom else layerGeom l.feats b id) ∧
    layerLoc (l.commit f rs).feats b id = (if id = f.id then pointOfG f.geom else layerLoc l.feats b id) := by
  by_cases hid : id = f.id
  · simp [layerGeom, layerLoc, commit_feats, hid]
  · simp only [hid, ↓reduceIte]
    have hc := copy_fold f.id rs (l, [])
    simp only at hc
    cases hg : AMap.get (l.commit f rs).feats id with
    | none =>
      have hl : AMap.get l.feats id = none := by
        cases h : AMap.get l.feats id with
        | none => rfl
        | some g =>
          have := hc.2.1 id g h
          simp [commit_feats, hid, copyReferrers, this] at hg
      simp [layerGeom, layerLoc, hg, hl]
    | some g =>
      have hg' := hg
      simp only [commit_feats, hid, ↓reduceIte, copyReferrers] at hg'
      rcases hc.2.2 id g hg' with h | ⟨h1, _, r, hr, h3, h4⟩
      · simp [layerGeom, layerLoc, hg, h]
      · have hfind := hrs r hr
        rw [h3, h4] at hfind
        have hgeo : layerGeom l.feats b id = some g.geom := by
          rw [← geomOf_view b (l.loc b)]; simp [geomOf, find_view, hfind, h3]
        have hlo : layerLoc l.feats b id = pointOfG g.geom := by
          have := view_locOK hbl l (l.loc b) id
          rw [loc_view, geomOf_view, hgeo] at this
          exact this
        simp only [layerGeom, layerLoc, hg] at hgeo hlo ⊢
        exact ⟨hgeo.symm, hlo.symm⟩

/-! ## the answer of `AddFeature` -/

theorem addFeature_verdict (b : View) (o : Oracle) (l : Layer) (f : Feature) :
    (l.addFeature b o f).2 =
      if !validateG (l.view b (l.loc b)) o f.geom then some Err.invalid
      else if (l.referrers b f.id).isEmpty then none
      else if (l.referrers b f.id).any (fun r =>
          !validateG ((l.putTmp f).view b ((l.putTmp f).loc b)) o r.f.geom) then some Err.invalid
      else none := by
  rw [addFeature_eq, validate_eq]
  split
  · rfl
  · split
    · rfl
    · simp only [Layer.checkReferrers, validate_eq]
      split <;> rfl

/-- the canary (`c` over `v0`) and the world (`l` over `b`) show the same geometry and locations -/
def CW (v0 b : View) (c l : Layer) : Prop :=
  ∀ id, layerGeom c.feats v0 id = layerGeom l.feats b id ∧ layerLoc c.feats v0 id = layerLoc l.feats b id

theorem cw_gagree {v0 b : View} {c l : Layer} (h : CW v0 b c l) (ll ll' : Id → Option Pt) :
    GAgree (l.view b ll) (c.view v0 ll') :=
  ⟨by funext id; rw [loc_view, loc_view]; exact (h id).2,
   fun id => by rw [geomOf_view, geomOf_view]; exact (h id).1⟩

theorem cw_putTmp {v0 b : View} {c l : Layer} (h : CW v0 b c l) (f : Feature) :
    CW v0 b (c.putTmp f) (l.putTmp f) := by
  intro id
  rw [(geom_putTmp v0 c f id).1, (geom_putTmp b l f id).1, (geom_putTmp v0 c f id).2, (geom_putTmp b l f id).2,
    (h id).1, (h id).2]
  exact ⟨rfl, rfl⟩

theorem mem_of_sameRefs {a b : List Id} (h : sameRefs a b = true) (x : Id) : x ∈ a ↔ x ∈ b := by
  simp only [sameRefs, Bool.and_eq_true, List.all_eq_true, List.contains_eq_mem, decide_eq_true_eq] at h
  exact ⟨h.1 x, h.2 x⟩

theorem referrers_isEmpty (b : View) (l : Layer) (id : Id) :
    (l.referrers b id).isEmpty = true ↔ ∀ x ∈ (l.view b (l.loc b)).refs id, l.find b x = none := by
  simp only [Layer.referrers, List.isEmpty_iff, List.filterMap_eq_nil_iff]

theorem referrers_any (b : View) (l : Layer) (id : Id) (P : FV → Bool) :
    (l.referrers b id).any P = true ↔
      ∃ x ∈ (l.view b (l.loc b)).refs id, ∃ fv, l.find b x = some fv ∧ P fv = true := by
  simp only [Layer.referrers, List.any_eq_true, List.mem_filterMap]
  constructor
  · rintro ⟨fv, ⟨x, hx, hf⟩, hp⟩; exact ⟨x, hx, fv, hf, hp⟩
  · rintro ⟨x, hx, fv, hf, hp⟩; exact ⟨fv, ⟨x, hx, hf⟩, hp⟩

/-- **one `AddFeature` on both sides**: same answer -/
theorem addFeature_same_verdict {v0 b : View} {o : Oracle} {c l : Layer} {f : Feature}
    (h : CW v0 b c l)
    (href : sameRefs ((c.view v0 (c.loc v0)).refs f.id) ((l.view b (l.loc b)).refs f.id) = true) :
    (c.addFeature v0 o f).2 = (l.addFeature b o f).2 := by
  rw [addFeature_verdict, addFeature_verdict]
  have hg := cw_gagree h (l.loc b) (c.loc v0)
  have hgt := cw_gagree (cw_putTmp h f) ((l.putTmp f).loc b) ((c.putTmp f).loc v0)
  have hv : ∀ g, validateG (c.view v0 (c.loc v0)) o g = validateG (l.view b (l.loc b)) o g :=
    validateG_congr hg.loc hg.geom o
  have hvt : ∀ g, validateG ((c.putTmp f).view v0 ((c.putTmp f).loc v0)) o g =
      validateG ((l.putTmp f).view b ((l.putTmp f).loc b)) o g := validateG_congr hgt.loc hgt.geom o
  have hsome : ∀ x, (c.find v0 x).isSome = (l.find b x).isSome := fun x => by
    have := hg.isSome x; simpa [find_view] using this
  have hgeom : ∀ x fc fw, c.find v0 x = some fc → l.find b x = some fw → fc.f.geom = fw.f.geom := by
    intro x fc fw h1 h2
    have := hg.geom x
    simp only [geomOf, find_view, h1, h2, Option.map_some, Option.some.injEq] at this
    exact this
  have hmem := mem_of_sameRefs href
  have hempty : (c.referrers v0 f.id).isEmpty = (l.referrers b f.id).isEmpty := by
    apply Bool.eq_iff_iff.2
    rw [referrers_isEmpty, referrers_isEmpty]
    constructor
    · intro hc x hx
      have := hc x ((hmem x).2 hx)
      have h2 := hsome x
      rw [this] at h2
      cases hf : l.find b x with
      | none => rfl
      | some fv => rw [hf] at h2; cases h2
    · intro hw x hx
      have := hw x ((hmem x).1 hx)
      have h2 := hsome x
      rw [this] at h2
      cases hf : c.find v0 x with
      | none => rfl
      | some fv => rw [hf] at h2; cases h2
  have hany : (c.referrers v0 f.id).any (fun r =>
        !validateG ((c.putTmp f).view v0 ((c.putTmp f).loc v0)) o r.f.geom) =
      (l.referrers b f.id).any (fun r =>
        !validateG ((l.putTmp f).view b ((l.putTmp f).loc b)) o r.f.geom) := by
    apply Bool.eq_iff_iff.2
    rw [referrers_any, referrers_any]
    constructor
    · rintro ⟨x, hx, fc, hfc, hp⟩
      have h2 := hsome x
      rw [hfc] at h2
      cases hfw : l.find b x with
      | none => rw [hfw] at h2; cases h2
      | some fw =>
        refine ⟨x, (hmem x).1 hx, fw, hfw, ?_⟩
        rw [← hgeom x fc fw hfc hfw, ← hvt]; exact hp
    · rintro ⟨x, hx, fw, hfw, hp⟩
      have h2 := hsome x
      rw [hfw] at h2
      cases hfc : c.find v0 x with
      | none => rw [hfc] at h2; cases h2
      | some fc =>
        refine ⟨x, (hmem x).2 hx, fc, hfc, ?_⟩
        rw [hgeom x fc fw hfc hfw, hvt]; exact hp
  rw [hv, hempty, hany]

/-- an `AddFeature` seen through what validation reads: `f` under its id when accepted, nothing otherwise -/
theorem geom_addFeature {b : View} {o : Oracle} {l l' : Layer} {f : Feature} {r : Option Err}
    (hb : b.IdsOK) (hbl : b.LocOK) (hl : l.FeatsId) (h : l.addFeature b o f = (l', r)) (id : Id) :
    layerGeom l'.feats b id = (if r = none ∧ id = f.id then some f.geom else layerGeom l.feats b id) ∧
    layerLoc l'.feats b id = (if r = none ∧ id = f.id then pointOfG f.geom else layerLoc l.feats b id) := by
  rw [addFeature_eq] at h
  split at h
  · cases h; simp
  · split at h
    · cases h
      have := geom_commit (f := f) hbl (referrers_find hb hl f.id) id
      simpa using this
    · have hs := checkReferrers_same b o l f (l.referrers b f.id)
      split at h
      · cases h
        have := sameG_of_same (b := b) hs id
        simpa using this
      · cases h
        have hrs : ∀ r ∈ l.referrers b f.id,
            (l.checkReferrers b o f (l.referrers b f.id)).1.find b r.f.id = some r := by
          intro r hr; rw [hs.find]; exact referrers_find hb hl f.id r hr
        have := geom_commit (f := f) hbl hrs id
        have h2 := sameG_of_same (b := b) hs id
        rw [h2.1, h2.2] at this
        simpa using this

/-- everything the lock-step argument carries -/
structure Sim (v0 b : View) (c l : Layer) : Prop where
  cw : CW v0 b c l
  cFeats : c.FeatsId
  lFeats : l.FeatsId

theorem addTag_isOk {b : View} {l : Layer} {id : Id} {t : Tag} :
    (∃ l', l.addTag b id t = .ok l') ↔ (l.find b id).isSome = true := by
  constructor
  · rintro ⟨l', h⟩
    cases hf : l.find b id with
    | some fv => rfl
    | none =>
      unfold Layer.addTag at h
      cases hg : AMap.get l.feats id with
      | some f => rw [find_overlay hg] at hf; cases hf
      | none => simp [hg, hf] at h
  · intro h
    cases hs : l.addTag b id t with
    | ok l' => exact ⟨l', rfl⟩
    | error e => rw [addTag_error hs] at h; cases h

theorem removeTag_isOk {b : View} {l : Layer} {id : Id} {k : Key} :
    (∃ l', l.removeTag b id k = .ok l') ↔ (l.find b id).isSome = true := by
  constructor
  · rintro ⟨l', h⟩
    cases hf : l.find b id with
    | some fv => rfl
    | none =>
      unfold Layer.removeTag at h
      cases hg : AMap.get l.feats id with
      | some f => rw [find_overlay hg] at hf; cases hf
      | none => simp [hg, hf] at h
  · intro h
    cases hs : l.removeTag b id k with
    | ok l' => exact ⟨l', rfl⟩
    | error e => rw [removeTag_error hs] at h; cases h

theorem addTag_err_kind {b : View} {l : Layer} {id : Id} {t : Tag} {e : Err} (h : l.addTag b id t = .error e) :
    e = .noFeature := by
  unfold Layer.addTag at h
  split at h
  · cases h
  · split at h
    · cases h; rfl
    · split at h <;> cases h

theorem removeTag_err_kind {b : View} {l : Layer} {id : Id} {k : Key} {e : Err} (h : l.removeTag b id k = .error e) :
    e = .noFeature := by
  unfold Layer.removeTag at h
  split at h
  · cases h
  · split at h
    · cases h; rfl
    · split at h
      · cases h
      · split at h <;> cases h

/-- **one call on both sides**: same answer, and the two worlds keep agreeing -/
theorem prim_step {v0 b : View} {o : Oracle} {c l : Layer} (p : Prim)
    (hv0 : v0.IdsOK) (hv0l : v0.LocOK) (hb : b.IdsOK) (hbl : b.LocOK) (hs : Sim v0 b c l)
    (hfeat : ∀ f, p = .feat f → (c.addFeature v0 o f).2 = (l.addFeature b o f).2) :
    (p.apply v0 o c).2 = (p.apply b o l).2 ∧ Sim v0 b (p.apply v0 o c).1 (p.apply b o l).1 := by
  have hsome : ∀ x, (c.find v0 x).isSome = (l.find b x).isSome := fun x => by
    have := (cw_gagree hs.cw (l.loc b) (c.loc v0)).isSome x; simpa [find_view] using this
  cases p with
  | feat f =>
    simp only [Prim.apply]
    have hv := hfeat f rfl
    have e1' : c.addFeature v0 o f = ((c.addFeature v0 o f).1, (c.addFeature v0 o f).2) := rfl
    have e2' : l.addFeature b o f = ((l.addFeature b o f).1, (l.addFeature b o f).2) := rfl
    refine ⟨hv, ?_, featsId_addFeature hs.cFeats e1', featsId_addFeature hs.lFeats e2'⟩
    intro id
    have e1 : c.addFeature v0 o f = ((c.addFeature v0 o f).1, (c.addFeature v0 o f).2) := rfl
    have e2 : l.addFeature b o f = ((l.addFeature b o f).1, (l.addFeature b o f).2) := rfl
    have g1 := geom_addFeature hv0 hv0l hs.cFeats e1 id
    have g2 := geom_addFeature hb hbl hs.lFeats e2 id
    rw [g1.1, g1.2, g2.1, g2.2, hv, (hs.cw id).1, (hs.cw id).2]
    exact ⟨rfl, rfl⟩
  | tag id t =>
    simp only [Prim.apply]
    cases hc : c.addTag v0 id t with
    | ok c' =>
      have hex := addTag_isOk.1 ⟨c', hc⟩
      rw [hsome id] at hex
      obtain ⟨l', hl'⟩ := (addTag_isOk (t := t)).2 hex
      rw [hl']
      refine ⟨rfl, ?_, featsId_addTag hs.cFeats hc, featsId_addTag hs.lFeats hl'⟩
      intro x
      have g1 := sameG_addTag hv0 hv0l hs.cFeats hc x
      have g2 := sameG_addTag hb hbl hs.lFeats hl' x
      rw [g1.1, g1.2, g2.1, g2.2]; exact hs.cw x
    | error e =>
      have hnone := addTag_error hc
      cases hl' : l.addTag b id t with
      | ok l' =>
        have := addTag_isOk.1 ⟨l', hl'⟩
        rw [← hsome id, hnone] at this; cases this
      | error e' =>
        rw [addTag_err_kind hc, addTag_err_kind hl']
        exact ⟨rfl, hs⟩
  | untag id k =>
    simp only [Prim.apply]
    cases hc : c.removeTag v0 id k with
    | ok c' =>
      have hex := removeTag_isOk.1 ⟨c', hc⟩
      rw [hsome id] at hex
      obtain ⟨l', hl'⟩ := (removeTag_isOk (k := k)).2 hex
      rw [hl']
      refine ⟨rfl, ?_, featsId_removeTag hs.cFeats hc, featsId_removeTag hs.lFeats hl'⟩
      intro x
      have g1 := sameG_removeTag hv0 hv0l hs.cFeats hc x
      have g2 := sameG_removeTag hb hbl hs.lFeats hl' x
      rw [g1.1, g1.2, g2.1, g2.2]; exact hs.cw x
    | error e =>
      have hnone := removeTag_error hc
      cases hl' : l.removeTag b id k with
      | ok l' =>
        have := removeTag_isOk.1 ⟨l', hl'⟩
        rw [← hsome id, hnone] at this; cases this
      | error e' =>
        rw [removeTag_err_kind hc, removeTag_err_kind hl']
        exact ⟨rfl, hs⟩

/-- **any sequence of calls**: while the two worlds' `FindReferences` agree before every `AddFeature`,
the canary and the world give the same answer -/
theorem prims_faithful {v0 b : View} {o : Oracle} (hv0 : v0.IdsOK) (hv0l : v0.LocOK) (hb : b.IdsOK) (hbl : b.LocOK)
    (ps : List Prim) : ∀ (c l : Layer), Sim v0 b c l → lockstepRefs v0 b o c l ps = true →
      (applyPrims v0 o c ps).2 = (applyPrims b o l ps).2 := by
  induction ps with
  | nil => intro c l _ _; rfl
  | cons p rest ih =>
    intro c l hs hlock
    simp only [lockstepRefs, Bool.and_eq_true] at hlock
    have href : ∀ f, p = .feat f →
        sameRefs ((c.view v0 (c.loc v0)).refs f.id) ((l.view b (l.loc b)).refs f.id) = true := by
      intro f hp; subst hp; exact hlock.1
    obtain ⟨hv, hs'⟩ := prim_step (o := o) p hv0 hv0l hb hbl hs
      (fun f hp => addFeature_same_verdict hs.cw (href f hp))
    simp only [applyPrims]
    cases hc : p.apply v0 o c with
    | mk c' rc =>
      cases hl : p.apply b o l with
      | mk l' rl =>
        rw [hc, hl] at hv hs'
        simp only at hv hs'
        subst hv
        cases rc with
        | none =>
          simp only
          apply ih c' l' hs'
          have := hlock.2
          rw [hc, hl] at this
          exact this
        | some e => rfl

/-! ## change lists are their calls -/

theorem applyPrims_append (b : View) (o : Oracle) (p1 p2 : List Prim) : ∀ l : Layer,
    applyPrims b o l (p1 ++ p2) =
      match applyPrims b o l p1 with
      | (l', none) => applyPrims b o l' p2
      | (l', some e) => (l', some e) := by
  induction p1 with
  | nil => intro l; rfl
  | cons p r ih =>
    intro l
    simp only [List.cons_append, applyPrims]
    cases h : p.apply b o l with
    | mk l1 r1 =>
      cases r1 with
      | none => exact ih l1
      | some e => rfl

theorem change_eq_prims (b : View) (o : Oracle) (c : Change) : ∀ l : Layer,
    c.apply b o l = applyPrims b o l c.prims := by
  cases c with
  | addFeatures fs =>
    induction fs with
    | nil => intro l; rfl
    | cons f r ih =>
      intro l
      simp only [Change.apply, applyFeatures, Change.prims, List.map_cons, applyPrims, Prim.apply] at ih ⊢
      cases h : l.addFeature b o f with
      | mk l1 r1 =>
        cases r1 with
        | none => exact ih l1
        | some e => rfl
  | addTags ts =>
    induction ts with
    | nil => intro l; rfl
    | cons e r ih =>
      intro l
      obtain ⟨id, t⟩ := e
      simp only [Change.apply, applyAddTags, Change.prims, List.map_cons, applyPrims, Prim.apply] at ih ⊢
      cases h : l.addTag b id t with
      | ok l1 => exact ih l1
      | error e => rfl
  | removeTags ts =>
    induction ts with
    | nil => intro l; rfl
    | cons e r ih =>
      intro l
      obtain ⟨id, k⟩ := e
      simp only [Change.apply, applyRemoveTags, Change.prims, List.map_cons, applyPrims, Prim.apply] at ih ⊢
      cases h : l.removeTag b id k with
      | ok l1 => exact ih l1
      | error e => rfl

theorem applyAll_eq_prims (b : View) (o : Oracle) (cs : List Change) : ∀ l : Layer,
    applyAll b o l cs = applyPrims b o l (cs.flatMap Change.prims) := by
  induction cs with
  | nil => intro l; rfl
  | cons c r ih =>
    intro l
    simp only [applyAll, List.flatMap_cons, applyPrims_append, change_eq_prims]
    cases h : applyPrims b o l c.prims with
    | mk l1 r1 =>
      cases r1 with
      | none => exact ih l1
      | some e => rfl

theorem rootView_locOK (fs : List Feature) : (rootView fs).LocOK := by
  intro id
  simp only [rootView, geomOf, rootFind, rootLoc]
  cases h : AMap.get (rootFeats fs) id with
  | none => rfl
  | some f => simp [pointOf_eq]

/-- a fresh canary over the world's view starts in agreement with the world -/
theorem sim_init (b : View) (l : Layer) (hl : l.FeatsId) : Sim (l.view b (l.loc b)) b Layer.empty l :=
  ⟨fun id => by
      constructor
      · rw [← geomOf_view b (l.loc b)]; simp [layerGeom, Layer.empty]
      · rw [← loc_view b (l.loc b)]; simp [layerLoc, Layer.empty],
   fun i f h => by simp [Layer.empty] at h, hl⟩

end B6.Model.Mutable
