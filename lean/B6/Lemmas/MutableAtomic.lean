import B6.Lemmas.MutableRefs
/-!
C13, round 4: the answer of `AddFeature` as a function of geometry and locations alone, given that the
world is valid and that `FindReferences` is complete for what validation reads; completeness of a layered
world's `FindReferences`; preservation of the invariants; the canary is faithful without any run-time
hypothesis.
-/
namespace B6.Model.Mutable

/-! ## what the validation of a geometry reads -/

/-- `id` is named by the geometry, or by a feature the geometry names (an end point of a path of an area) -/
def Dep (v : View) (g : Geom) (id : Id) : Prop :=
  id ∈ geomRefs g ∨ ∃ P ∈ geomRefs g, ∃ gP, geomOf v P = some gP ∧ id ∈ geomRefs gP

/-- `v'` is `v` with the feature under `id` replaced by `f` (the temporary replacement of `AddFeature`,
and the world after the replacement is committed), as far as validation can see -/
structure Ovr (v v' : View) (id : Id) (f : Feature) : Prop where
  loc : ∀ x, v'.loc x = if x = id then pointOfG f.geom else v.loc x
  geom : ∀ x, geomOf v' x = if x = id then some f.geom else geomOf v x

theorem mapM_congr {f g : Id → Option Pt} (l : List Id) (h : ∀ x ∈ l, f x = g x) : l.mapM f = l.mapM g := by
  induction l with
  | nil => rfl
  | cons a r ih =>
    simp only [List.mapM_cons, h a List.mem_cons_self, ih (fun x hx => h x (List.mem_cons_of_mem _ hx))]

theorem all_congr_mem {f g : Id → Bool} (l : List Id) (h : ∀ a ∈ l, f a = g a) : l.all f = l.all g := by
  induction l with
  | nil => rfl
  | cons a r ih =>
    simp only [List.all_cons, h a List.mem_cons_self, ih (fun x hx => h x (List.mem_cons_of_mem _ hx))]

theorem pathClosesIn_congr {loc loc' : Id → Option Pt} (qs : List Id) (h : ∀ q ∈ qs, loc' q = loc q) :
    pathClosesIn loc' qs = pathClosesIn loc qs := by
  unfold pathClosesIn
  split
  · rfl
  · cases hh : qs.head? with
    | none => rfl
    | some a =>
      cases hl : qs.getLast? with
      | none => rfl
      | some c =>
        simp only [h a (List.mem_of_head? hh), h c (List.mem_of_getLast? hl)]

/-- validation of a geometry that does not depend on `id` is not affected by replacing the feature under `id` -/
theorem validateG_unchanged {v v' : View} {id : Id} {f : Feature} (ho : Ovr v v' id f) (o : Oracle) (g : Geom)
    (hd : ¬ Dep v g id) : validateG v' o g = validateG v o g := by
  have hloc : ∀ x, x ≠ id → v'.loc x = v.loc x := fun x hx => by rw [ho.loc]; simp [hx]
  have hgeo : ∀ x, x ≠ id → geomOf v' x = geomOf v x := fun x hx => by rw [ho.geom]; simp [hx]
  cases g with
  | point p => rfl
  | relation ms => rfl
  | collection ks => rfl
  | path ps =>
    have hn : ∀ p ∈ ps, p ≠ id := fun p hp he => hd (Or.inl (by simpa [geomRefs, he] using hp))
    simp only [validateG, validatePath]
    rw [mapM_congr ps (fun p hp => hloc p (hn p hp))]
  | area ps =>
    simp only [validateG, validateArea]
    apply all_congr_mem
    intro P hP
    have hPne : P ≠ id := fun he => hd (Or.inl (by simpa [geomRefs, he] using hP))
    have h1 : (v'.find P).map (·.f.geom) = (v.find P).map (·.f.geom) := hgeo P hPne
    rw [h1]
    cases hg : (v.find P).map (·.f.geom) with
    | none => rfl
    | some gP =>
      cases gP with
      | path qs =>
        simp only [areaPathOK]
        apply pathClosesIn_congr
        intro q hq
        apply hloc
        intro he
        exact hd (Or.inr ⟨P, by simpa [geomRefs] using hP, .path qs, hg, by simpa [geomRefs, he] using hq⟩)
      | point p => rfl
      | area x => rfl
      | relation x => rfl
      | collection x => rfl

/-! ## validity, completeness, and the answer of `AddFeature` -/

/-- every feature the world shows validates in it (C37's invariant) -/
def AllValid (v : View) (o : Oracle) : Prop := ∀ x g, geomOf v x = some g → validateG v o g = true

/-- `FindReferences(id)` returns every feature whose validation reads `id` (half of C15's spec) -/
def RefsComplete (v : View) : Prop := ∀ id x gx, geomOf v x = some gx → Dep v gx id → x ∈ v.refs id

/-- some feature that depends on `f.id` would be invalid once `f` is in place -/
def Bad (v vt : View) (o : Oracle) (id : Id) : Prop :=
  ∃ x g, geomOf v x = some g ∧ Dep v g id ∧ validateG vt o g = false

theorem tmp_ovr (b : View) (l : Layer) (f : Feature) :
    Ovr (l.view b (l.loc b)) ((l.putTmp f).view b ((l.putTmp f).loc b)) f.id f :=
  ⟨fun x => by rw [loc_view, loc_view, (geom_putTmp b l f x).2],
   fun x => by rw [geomOf_view, geomOf_view, (geom_putTmp b l f x).1]⟩

/-- **the answer of `AddFeature` is geometric**: in a valid world with a complete `FindReferences`, it is an
error exactly when `f` is invalid or a feature depending on `f.id` becomes invalid -/
theorem addFeature_err_iff {b : View} {o : Oracle} {l : Layer} {f : Feature}
    (hav : AllValid (l.view b (l.loc b)) o) (hrc : RefsComplete (l.view b (l.loc b))) :
    (l.addFeature b o f).2 ≠ none ↔
      (validateG (l.view b (l.loc b)) o f.geom = false ∨
       Bad (l.view b (l.loc b)) ((l.putTmp f).view b ((l.putTmp f).loc b)) o f.id) := by
  rw [addFeature_verdict]
  have hovr := tmp_ovr b l f
  by_cases hv : validateG (l.view b (l.loc b)) o f.geom = true
  · have hor : (validateG (l.view b (l.loc b)) o f.geom = false ∨
        Bad (l.view b (l.loc b)) ((l.putTmp f).view b ((l.putTmp f).loc b)) o f.id) ↔
        Bad (l.view b (l.loc b)) ((l.putTmp f).view b ((l.putTmp f).loc b)) o f.id := by
      rw [hv]; simp
    rw [hor]
    simp only [hv, Bool.not_true, Bool.false_eq_true, ↓reduceIte]
    -- the error comes from a referrer
    have key : ((l.referrers b f.id).any (fun r =>
        !validateG ((l.putTmp f).view b ((l.putTmp f).loc b)) o r.f.geom) = true) ↔
        Bad (l.view b (l.loc b)) ((l.putTmp f).view b ((l.putTmp f).loc b)) o f.id := by
      rw [referrers_any]
      constructor
      · rintro ⟨x, _, fv, hfv, hp⟩
        have hg : geomOf (l.view b (l.loc b)) x = some fv.f.geom := by simp [geomOf, find_view, hfv]
        have hinv : validateG ((l.putTmp f).view b ((l.putTmp f).loc b)) o fv.f.geom = false := by simpa using hp
        refine ⟨x, fv.f.geom, hg, ?_, hinv⟩
        apply Classical.byContradiction
        intro hnd
        rw [validateG_unchanged hovr o _ hnd, hav x _ hg] at hinv
        cases hinv
      · rintro ⟨x, g, hg, hd, hinv⟩
        have hx := hrc f.id x g hg hd
        simp only [geomOf, find_view] at hg
        cases hfv : l.find b x with
        | none => simp [hfv] at hg
        | some fv =>
          simp only [hfv, Option.map_some, Option.some.injEq] at hg
          exact ⟨x, hx, fv, hfv, by rw [hg, hinv]; rfl⟩
    by_cases he : (l.referrers b f.id).isEmpty = true
    · simp only [he, ↓reduceIte, ne_eq, not_true_eq_false, false_iff]
      intro hbad
      have := key.2 hbad
      rw [List.isEmpty_iff] at he
      rw [he] at this
      simp at this
    · simp only [he, Bool.false_eq_true, ↓reduceIte]
      rw [← key]
      by_cases ha : (l.referrers b f.id).any (fun r =>
          !validateG ((l.putTmp f).view b ((l.putTmp f).loc b)) o r.f.geom) = true
      · simp [ha]
      · simp [ha]
  · have hv' : validateG (l.view b (l.loc b)) o f.geom = false := by simpa using hv
    simp [hv']

/-! ## completeness of `MutableOverlayWorld.FindReferences` -/

theorem mem_dedup (x : Id) : ∀ l : List Id, x ∈ dedup l ↔ x ∈ l := by
  intro l
  induction l with
  | nil => simp [dedup]
  | cons a r ih =>
    simp only [dedup]
    by_cases hc : r.contains a = true
    · simp only [hc, ↓reduceIte, ih, List.mem_cons]
      constructor
      · exact fun h => Or.inr h
      · rintro (h | h)
        · subst h; simpa using hc
        · exact h
    · simp only [hc, Bool.false_eq_true, ↓reduceIte, List.mem_cons, ih]

theorem closure_direct {rs : List (Id × List Id)} {s t : Id} (n : Nat) (h : s ∈ sources rs t) :
    s ∈ closure rs (n + 1) t := by
  simp only [closure, List.mem_append]; exact Or.inl h

theorem closure_two {rs : List (Id × List Id)} {s t u : Id} (n : Nat) (h1 : s ∈ sources rs t)
    (h2 : u ∈ sources rs s) : u ∈ closure rs (n + 2) t := by
  simp only [closure, List.mem_append, List.mem_flatMap]
  exact Or.inr ⟨s, h1, Or.inl h2⟩

theorem sources_len {rs : List (Id × List Id)} {s t : Id} (h : s ∈ sources rs t) : 1 ≤ rs.length := by
  cases rs with
  | nil => simp [sources] at h
  | cons a r => simp

theorem closure_refDepth_direct {rs : List (Id × List Id)} {s t : Id} (h : s ∈ sources rs t) :
    s ∈ closure rs (refDepth rs) t := closure_direct rs.length h

theorem closure_refDepth_two {rs : List (Id × List Id)} {s t u : Id} (h1 : s ∈ sources rs t)
    (h2 : u ∈ sources rs s) : u ∈ closure rs (refDepth rs) t := by
  have hl := sources_len h1
  have : refDepth rs = (rs.length - 1) + 2 := by unfold refDepth; omega
  rw [this]; exact closure_two _ h1 h2

theorem mem_refsOf_of {b : View} {l : Layer} {id x : Id} (hf : (l.find b x).isSome = true)
    (h : (x ∈ b.refs id ∧ AMap.get l.feats x = none) ∨
         (∃ y, y ∈ b.refs id ∧ AMap.get l.feats y = none ∧ x ∈ closure l.refs (refDepth l.refs) y) ∨
         x ∈ closure l.refs (refDepth l.refs) id) : x ∈ l.refsOf b id := by
  simp only [Layer.refsOf, List.mem_filter, mem_dedup, List.mem_append, List.mem_flatMap, AMap.contains,
    Bool.not_eq_true', Option.isSome_eq_false_iff, Option.isNone_iff_eq_none]
  refine ⟨?_, hf⟩
  rcases h with ⟨h1, h2⟩ | ⟨y, h1, h2, h3⟩ | h
  · exact Or.inl (Or.inl ⟨h1, h2⟩)
  · exact Or.inl (Or.inr ⟨y, ⟨h1, h2⟩, h3⟩)
  · exact Or.inr h

/-- the copy discipline that survives `AddTag`: an overlay feature that a base-only feature names has the
references of its base version (it was copied for a tag edit, or is a copied referrer); an overlay feature
whose references changed has had all its referrers copied with it -/
def CopyDisc (b : View) (l : Layer) : Prop :=
  ∀ x gx P g, AMap.get l.feats x = none → geomOf b x = some gx → P ∈ geomRefs gx →
    AMap.get l.feats P = some g → ∃ g0, geomOf b P = some g0 ∧ geomRefs g0 = geomRefs g.geom

theorem layerGeom_some {feats : List (Id × Feature)} {b : View} {x : Id} {g : Feature}
    (h : AMap.get feats x = some g) : layerGeom feats b x = some g.geom := by simp [layerGeom, h]

theorem layerGeom_none {feats : List (Id × Feature)} {b : View} {x : Id}
    (h : AMap.get feats x = none) : layerGeom feats b x = geomOf b x := by simp [layerGeom, h]

/-- **`FindReferences` of a layered world is complete** for everything validation reads, when the base's is,
the reference table is the inverse of the overlay's references, and the copy discipline holds -/
theorem refsComplete_view {b : View} {l : Layer} (hb : RefsComplete b) (hi : RefsInv l) (hcd : CopyDisc b l)
    (ll : Id → Option Pt) : RefsComplete (l.view b ll) := by
  intro id x gx hgx hdep
  show x ∈ l.refsOf b id
  have hfound : (l.find b x).isSome = true := by
    simp only [geomOf, find_view] at hgx
    cases h : l.find b x with
    | none => simp [h] at hgx
    | some fv => rfl
  rw [geomOf_view] at hgx
  apply mem_refsOf_of hfound
  rcases hdep with hd | ⟨P, hP, gP, hgP, hidP⟩
  · cases hx : AMap.get l.feats x with
    | some g =>
      rw [layerGeom_some hx] at hgx
      cases hgx
      exact Or.inr (Or.inr (closure_refDepth_direct ((hi id x).2 ⟨g, hx, hd⟩)))
    | none =>
      rw [layerGeom_none hx] at hgx
      exact Or.inl ⟨hb id x gx hgx (Or.inl hd), rfl⟩
  · rw [geomOf_view] at hgP
    cases hx : AMap.get l.feats x with
    | some g =>
      rw [layerGeom_some hx] at hgx
      cases hgx
      have hxP : x ∈ sources l.refs P := (hi P x).2 ⟨g, hx, hP⟩
      cases hPf : AMap.get l.feats P with
      | some gp =>
        rw [layerGeom_some hPf] at hgP
        cases hgP
        have hPid : P ∈ sources l.refs id := (hi id P).2 ⟨gp, hPf, hidP⟩
        exact Or.inr (Or.inr (closure_refDepth_two hPid hxP))
      | none =>
        rw [layerGeom_none hPf] at hgP
        exact Or.inr (Or.inl ⟨P, hb id P gP hgP (Or.inl hidP), hPf, closure_refDepth_direct hxP⟩)
    | none =>
      rw [layerGeom_none hx] at hgx
      cases hPf : AMap.get l.feats P with
      | some gp =>
        rw [layerGeom_some hPf] at hgP
        cases hgP
        obtain ⟨g0, hg0, hrefs⟩ := hcd x gx P gp hx hgx hP hPf
        exact Or.inl ⟨hb id x gx hgx (Or.inr ⟨P, hP, g0, hg0, by rw [hrefs]; exact hidP⟩), rfl⟩
      | none =>
        rw [layerGeom_none hPf] at hgP
        exact Or.inl ⟨hb id x gx hgx (Or.inr ⟨P, hP, gP, hgP, hidP⟩), rfl⟩

/-! ## the copy discipline is preserved -/

theorem copyDisc_same {b : View} {l l' : Layer} (hs : l.Same l') (h : CopyDisc b l) : CopyDisc b l' := by
  intro x gx P g hx hgx hP hPg
  rw [hs.feats] at hx hPg
  exact h x gx P g hx hgx hP hPg

theorem copyDisc_empty (b : View) : CopyDisc b Layer.empty := by
  intro x gx P g _ _ _ hPg; simp [Layer.empty] at hPg

/-- a tag edit of an overlay feature -/
theorem copyDisc_retag {b : View} {l : Layer} {id : Id} {f : Feature} {tags : List Tag} {ix : List (Token × List Id)}
    (h : CopyDisc b l) (hf : AMap.get l.feats id = some f) :
    CopyDisc b { l with index := ix, feats := AMap.set l.feats id { f with tags := tags } } := by
  intro x gx P g hx hgx hP hPg
  simp only [AMap.get_set] at hx hPg
  have hx' : AMap.get l.feats x = none := by
    by_cases hxi : x = id
    · simp [hxi] at hx
    · simpa [hxi] using hx
  by_cases hPi : P = id
  · simp only [hPi, ↓reduceIte, Option.some.injEq] at hPg
    subst hPg
    rw [hPi]
    exact h x gx id f hx' hgx (hPi ▸ hP) hf
  · simp only [hPi, ↓reduceIte] at hPg
    exact h x gx P g hx' hgx hP hPg

/-- a base feature copied with its base geometry (`AddTag` / `RemoveTag`) -/
theorem copyDisc_adopt {b : View} {l : Layer} {f : Feature} (h : CopyDisc b l)
    (hg : geomOf b f.id = some f.geom) : CopyDisc b (l.adopt f) := by
  intro x gx P g hx hgx hP hPg
  simp only [Layer.adopt, AMap.get_set] at hx hPg
  have hx' : AMap.get l.feats x = none := by
    by_cases hxi : x = f.id
    · simp [hxi] at hx
    · simpa [hxi] using hx
  by_cases hPi : P = f.id
  · simp only [hPi, ↓reduceIte, Option.some.injEq] at hPg
    subst hPg
    exact ⟨f.geom, hPi ▸ hg, rfl⟩
  · simp only [hPi, ↓reduceIte] at hPg
    exact h x gx P g hx' hgx hP hPg

theorem copy_fold3 (nid : Id) (rs : List FV) : ∀ (acc : Layer × List Feature), ∀ r ∈ rs, r.f.id ≠ nid →
    (AMap.get (rs.foldl (copyStep nid) acc).1.feats r.f.id).isSome = true := by
  induction rs with
  | nil => intro acc r hr; cases hr
  | cons a rest ih =>
    intro acc r hr hne
    simp only [List.foldl_cons]
    rcases List.mem_cons.1 hr with rfl | hr
    · have hkeep := (copy_fold nid rest (copyStep nid acc r)).2.1
      by_cases hc : (AMap.contains acc.1.feats r.f.id || r.f.id == nid) = true
      · have hstep : copyStep nid acc r = acc := by simp [copyStep, hc]
        rw [hstep] at hkeep ⊢
        simp only [Bool.or_eq_true, beq_iff_eq] at hc
        rcases hc with hc | hc
        · simp only [AMap.contains] at hc
          cases hg : AMap.get acc.1.feats r.f.id with
          | none => rw [hg] at hc; cases hc
          | some g => rw [hkeep _ g hg]; rfl
        · exact absurd hc hne
      · have hstep : copyStep nid acc r =
            ({ acc.1 with feats := AMap.set acc.1.feats r.f.id r.f }, acc.2 ++ [r.f]) := by
          simp [copyStep, hc]
        rw [hstep] at hkeep ⊢
        rw [hkeep r.f.id r.f (by simp [AMap.get_set])]; rfl
    · exact ih _ r hr hne

/-- the base geometry of a feature that the overlay does not hold -/
theorem geom_of_find_base {b : View} {l : Layer} {x : Id} {fv : FV} (hx : AMap.get l.feats x = none)
    (hf : l.find b x = some fv) : geomOf b x = some fv.f.geom := by
  have := geomOf_view b (l.loc b) l x
  rw [layerGeom_none hx] at this
  rw [← this]; simp [geomOf, find_view, hf]

/-- `NewModifiedFeaturesWithCopies` + `Update` keep the copy discipline: every base-only feature naming the
replaced feature is one of its referrers (completeness) and is therefore copied -/
theorem copyDisc_commit {b : View} {l l1 : Layer} {f : Feature} (hb : b.IdsOK) (hl : l.FeatsId) (hs : l.Same l1)
    (hcd : CopyDisc b l) (hrc : RefsComplete (l.view b (l.loc b))) :
    CopyDisc b (l1.commit f (l.referrers b f.id)) := by
  have hc := copy_fold f.id (l.referrers b f.id) (l1, [])
  simp only at hc
  intro x gx P g hx hgx hP hPg
  rw [commit_feats] at hx hPg
  have hxne : x ≠ f.id := by intro he; simp [he] at hx
  simp only [hxne, ↓reduceIte, copyReferrers] at hx
  have hxl : AMap.get l.feats x = none := by
    rw [← hs.feats]
    cases h : AMap.get l1.feats x with
    | none => rfl
    | some g' => rw [hc.2.1 x g' h] at hx; cases hx
  by_cases hPi : P = f.id
  · -- impossible: `x` names the replaced feature, so it is a referrer, so it was copied
    exfalso
    have hgV : geomOf (l.view b (l.loc b)) x = some gx := by rw [geomOf_view, layerGeom_none hxl]; exact hgx
    have hmem := hrc f.id x gx hgV (Or.inl (hPi ▸ hP))
    simp only [geomOf, find_view] at hgV
    cases hfv : l.find b x with
    | none => simp [hfv] at hgV
    | some fv =>
      have hfid : fv.f.id = x := view_idsOK hb hl (l.loc b) x fv (by rw [find_view]; exact hfv)
      have hin : fv ∈ l.referrers b f.id := by
        simp only [Layer.referrers, List.mem_filterMap]; exact ⟨x, hmem, hfv⟩
      have := copy_fold3 f.id (l.referrers b f.id) (l1, []) fv hin (by rw [hfid]; exact hxne)
      rw [hfid, hx] at this; cases this
  · simp only [hPi, ↓reduceIte, copyReferrers] at hPg
    rcases hc.2.2 P g hPg with h | ⟨h1, _, r, hr, h3, h4⟩
    · rw [hs.feats] at h; exact hcd x gx P g hxl hgx hP h
    · rw [hs.feats] at h1
      have hfind := referrers_find hb hl f.id r hr
      rw [h3, h4] at hfind
      exact ⟨g.geom, by rw [← h3]; exact (h3 ▸ geom_of_find_base h1 hfind), rfl⟩

/-! ## validity is preserved -/

theorem allValid_sameG {b : View} {o : Oracle} {l l' : Layer} (h : SameG b l l')
    (hav : AllValid (l.view b (l.loc b)) o) : AllValid (l'.view b (l'.loc b)) o := by
  have hloc : (l'.view b (l'.loc b)).loc = (l.view b (l.loc b)).loc := by
    funext x; rw [loc_view, loc_view]; exact (h x).2
  have hgeo : ∀ x, geomOf (l'.view b (l'.loc b)) x = geomOf (l.view b (l.loc b)) x := by
    intro x; rw [geomOf_view, geomOf_view]; exact (h x).1
  intro x g hg
  rw [validateG_congr hloc hgeo]
  exact hav x g (by rw [← hgeo]; exact hg)

/-- what an accepted `AddFeature` established -/
theorem addFeature_ok_facts {b : View} {o : Oracle} {l l' : Layer} {f : Feature}
    (h : l.addFeature b o f = (l', none)) :
    validateG (l.view b (l.loc b)) o f.geom = true ∧
    (∀ r ∈ l.referrers b f.id, validateG ((l.putTmp f).view b ((l.putTmp f).loc b)) o r.f.geom = true) ∧
    ∃ l1, l.Same l1 ∧ l' = l1.commit f (l.referrers b f.id) := by
  rw [addFeature_eq, validate_eq] at h
  split at h
  · cases h
  · rename_i hv
    have hv' : validateG (l.view b (l.loc b)) o f.geom = true := by simpa using hv
    split at h
    · rename_i he
      cases h
      rw [List.isEmpty_iff] at he
      refine ⟨hv', ?_, l, Layer.Same.rfl' l, rfl⟩
      intro r hr
      rw [he] at hr
      cases hr
    · split at h
      · cases h
      · rename_i hbad
        cases h
        refine ⟨hv', ?_, _, checkReferrers_same b o l f _, rfl⟩
        intro r hr
        simp only [Layer.checkReferrers, Bool.not_eq_true, List.any_eq_false, Bool.not_eq_true',
          Bool.not_eq_false'] at hbad
        have := hbad r hr
        rw [validate_eq] at this
        simpa using this

/-- the features of path / area kind that an operation adds do not name themselves (with typed ids this is
automatic: a path's points are point ids, an area's paths are path ids) -/
def selfFree (f : Feature) : Bool :=
  match f.geom with
  | .path ps => !ps.contains f.id
  | .area ps => !ps.contains f.id
  | _ => true

/-- **an accepted `AddFeature` keeps the world valid** — `v'` is the world after it -/
theorem allValid_commit {b : View} {o : Oracle} {l : Layer} {f : Feature} {v' : View}
    (hb : b.LocOK) (hav : AllValid (l.view b (l.loc b)) o) (hrc : RefsComplete (l.view b (l.loc b)))
    (hovr : Ovr (l.view b (l.loc b)) v' f.id f) (hsf : selfFree f = true)
    (hvalid : validateG (l.view b (l.loc b)) o f.geom = true)
    (hrefs : ∀ r ∈ l.referrers b f.id, validateG ((l.putTmp f).view b ((l.putTmp f).loc b)) o r.f.geom = true) :
    AllValid v' o := by
  have htmp := tmp_ovr b l f
  -- `v'` and the temporary world look alike
  have hloc : v'.loc = ((l.putTmp f).view b ((l.putTmp f).loc b)).loc := by
    funext x; rw [hovr.loc, htmp.loc]
  have hgeo : ∀ x, geomOf v' x = geomOf ((l.putTmp f).view b ((l.putTmp f).loc b)) x := by
    intro x; rw [hovr.geom, htmp.geom]
  -- a feature that depends on `f.id` was validated as a referrer
  have hdepvalid : ∀ x g, geomOf (l.view b (l.loc b)) x = some g → Dep (l.view b (l.loc b)) g f.id →
      validateG ((l.putTmp f).view b ((l.putTmp f).loc b)) o g = true := by
    intro x g hg hd
    have hmem := hrc f.id x g hg hd
    simp only [geomOf, find_view] at hg
    cases hfv : l.find b x with
    | none => simp [hfv] at hg
    | some fv =>
      simp only [hfv, Option.map_some, Option.some.injEq] at hg
      have hin : fv ∈ l.referrers b f.id := by
        simp only [Layer.referrers, List.mem_filterMap]; exact ⟨x, hmem, hfv⟩
      rw [← hg]; exact hrefs fv hin
  intro x g hg
  rw [validateG_congr hloc hgeo]
  by_cases hx : x = f.id
  · -- the new feature itself
    subst hx
    rw [hovr.geom] at hg
    simp only [↓reduceIte, Option.some.injEq] at hg
    subst hg
    cases hgm : f.geom with
    | point p => rfl
    | relation ms => rfl
    | collection ks => rfl
    | path ps =>
      have hnot : ¬ Dep (l.view b (l.loc b)) (.path ps) f.id := by
        rintro (hd | ⟨P, hP, gP, hgP, hid⟩)
        · simp [selfFree, hgm] at hsf; exact hsf (by simpa [geomRefs] using hd)
        · -- `P` is a point of the valid path, so it is located, so it is a point: it names nothing
          rw [hgm] at hvalid
          simp only [validateG, validatePath] at hvalid
          split at hvalid
          · cases hvalid
          · cases hm : ps.mapM (l.view b (l.loc b)).loc with
            | none => simp [hm] at hvalid
            | some pts =>
              have hlocP : ((l.view b (l.loc b)).loc P).isSome = true := by
                have : ∀ (qs : List Id) (r : List Pt), qs.mapM (l.view b (l.loc b)).loc = some r →
                    ∀ q ∈ qs, ((l.view b (l.loc b)).loc q).isSome = true := by
                  intro qs
                  induction qs with
                  | nil => intro r _ q hq; cases hq
                  | cons a t ih =>
                    intro r hr q hq
                    simp only [List.mapM_cons] at hr
                    cases ha : (l.view b (l.loc b)).loc a with
                    | none => simp [ha] at hr
                    | some pa =>
                      cases ht : t.mapM (l.view b (l.loc b)).loc with
                      | none => simp [ha, ht] at hr
                      | some rt =>
                        rcases List.mem_cons.1 hq with rfl | hq
                        · rw [ha]; rfl
                        · exact ih rt ht q hq
                exact this ps pts hm P (by simpa [geomRefs] using hP)
              have hlok := view_locOK hb l (l.loc b) P
              rw [hlok, hgP] at hlocP
              cases gP <;> simp [pointOfG, geomRefs] at hlocP hid
      rw [← hgm] at hnot ⊢
      rw [validateG_unchanged htmp o _ hnot]; exact hvalid
    | area ps =>
      have hnot : ¬ Dep (l.view b (l.loc b)) (.area ps) f.id := by
        rintro (hd | ⟨P, hP, gP, hgP, hid⟩)
        · simp [selfFree, hgm] at hsf; exact hsf (by simpa [geomRefs] using hd)
        · -- `P` names `f.id`, so it was validated with the area in place of `f.id`: impossible for a path
          have hPv := hdepvalid P gP hgP (Or.inl hid)
          rw [hgm] at hvalid
          simp only [validateG, validateArea, List.all_eq_true] at hvalid
          have hPok := hvalid P (by simpa [geomRefs] using hP)
          have hgP' : (Option.map (fun x => x.f.geom) ((l.view b (l.loc b)).find P)) = some gP := hgP
          rw [hgP'] at hPok
          cases gP with
          | path qs =>
            -- a path through `f.id` is invalid once `f.id` is an area: `f.id` is not located
            simp only [validateG, validatePath] at hPv
            split at hPv
            · cases hPv
            · cases hm : qs.mapM ((l.putTmp f).view b ((l.putTmp f).loc b)).loc with
              | none => simp [hm] at hPv
              | some pts =>
                have : ∀ (ws : List Id) (r : List Pt),
                    ws.mapM ((l.putTmp f).view b ((l.putTmp f).loc b)).loc = some r →
                    ∀ q ∈ ws, (((l.putTmp f).view b ((l.putTmp f).loc b)).loc q).isSome = true := by
                  intro ws
                  induction ws with
                  | nil => intro r _ q hq; cases hq
                  | cons a t ih =>
                    intro r hr q hq
                    simp only [List.mapM_cons] at hr
                    cases ha : ((l.putTmp f).view b ((l.putTmp f).loc b)).loc a with
                    | none => simp [ha] at hr
                    | some pa =>
                      cases ht : t.mapM ((l.putTmp f).view b ((l.putTmp f).loc b)).loc with
                      | none => simp [ha, ht] at hr
                      | some rt =>
                        rcases List.mem_cons.1 hq with rfl | hq
                        · rw [ha]; rfl
                        · exact ih rt ht q hq
                have h1 := this qs pts hm f.id (by simpa [geomRefs] using hid)
                rw [htmp.loc] at h1
                simp [hgm, pointOfG] at h1
          | point p => simp [areaPathOK] at hPok
          | area x => simp [areaPathOK] at hPok
          | relation x => simp [areaPathOK] at hPok
          | collection x => simp [areaPathOK] at hPok
      rw [← hgm] at hnot ⊢
      rw [validateG_unchanged htmp o _ hnot]; exact hvalid
  · rw [hovr.geom] at hg
    simp only [hx, ↓reduceIte] at hg
    by_cases hd : Dep (l.view b (l.loc b)) g f.id
    · exact hdepvalid x g hg hd
    · rw [validateG_unchanged htmp o _ hd]; exact hav x g hg

/-! ## the invariants of a reachable world, call by call -/

/-- what the theorems assume of a base world: consistent ids and locations, a complete `FindReferences` -/
structure BaseOK (b : View) : Prop where
  ids : b.IdsOK
  loc : b.LocOK
  rc : RefsComplete b

/-- the invariants of one world object over its base -/
structure Inv (b : View) (o : Oracle) (l : Layer) : Prop where
  feats : l.FeatsId
  refs : RefsInv l
  cd : CopyDisc b l
  av : AllValid (l.view b (l.loc b)) o

theorem Inv.rc {b : View} {o : Oracle} {l : Layer} (hb : BaseOK b) (h : Inv b o l) :
    RefsComplete (l.view b (l.loc b)) := refsComplete_view hb.rc h.refs h.cd _

theorem inv_same {b : View} {o : Oracle} {l l' : Layer} (hs : l.Same l') (h : Inv b o l) : Inv b o l' :=
  ⟨featsId_same hs h.feats, refsInv_same hs h.refs, copyDisc_same hs h.cd, allValid_sameG (sameG_of_same hs) h.av⟩

def primOK : Prim → Bool
  | .feat f => selfFree f
  | _ => true

theorem copyDisc_addTag {b : View} {l l' : Layer} {id : Id} {tag : Tag} (hb : b.IdsOK) (hl : l.FeatsId)
    (hcd : CopyDisc b l) (h : l.addTag b id tag = .ok l') : CopyDisc b l' := by
  unfold Layer.addTag at h
  cases hf : AMap.get l.feats id with
  | some f => simp only [hf, Except.ok.injEq] at h; subst h; exact copyDisc_retag hcd hf
  | none =>
    simp only [hf] at h
    cases hv : l.find b id with
    | none => simp [hv] at h
    | some fv =>
      simp only [hv] at h
      have hfid : fv.f.id = id := view_idsOK hb hl (l.loc b) id fv (by rw [find_view]; exact hv)
      split at h
      · cases h
        apply copyDisc_adopt hcd
        simp only [hfid]
        exact geom_of_find_base hf hv
      · cases h; exact hcd

theorem copyDisc_removeTag {b : View} {l l' : Layer} {id : Id} {key : Key} (hb : b.IdsOK) (hl : l.FeatsId)
    (hcd : CopyDisc b l) (h : l.removeTag b id key = .ok l') : CopyDisc b l' := by
  unfold Layer.removeTag at h
  cases hf : AMap.get l.feats id with
  | some f => simp only [hf, Except.ok.injEq] at h; subst h; exact copyDisc_retag hcd hf
  | none =>
    simp only [hf] at h
    cases hv : l.find b id with
    | none => simp [hv] at h
    | some fv =>
      simp only [hv] at h
      have hfid : fv.f.id = id := view_idsOK hb hl (l.loc b) id fv (by rw [find_view]; exact hv)
      split at h
      · cases h; exact hcd
      · split at h
        · cases h
          apply copyDisc_adopt hcd
          simp only [hfid]
          exact geom_of_find_base hf hv
        · cases h; exact hcd

/-- every call keeps the invariants, whatever it answers -/
theorem inv_prim {b : View} {o : Oracle} {l : Layer} (p : Prim) (hb : BaseOK b) (h : Inv b o l)
    (hp : primOK p = true) : Inv b o (p.apply b o l).1 := by
  cases p with
  | feat f =>
    simp only [Prim.apply]
    cases hr : l.addFeature b o f with
    | mk l' r =>
      cases r with
      | some e => exact inv_same (addFeature_err_same hr) h
      | none =>
        obtain ⟨hvalid, hrefs, l1, hs, hl'⟩ := addFeature_ok_facts hr
        refine ⟨featsId_addFeature h.feats hr, refsInv_addFeature h.feats h.refs hr, ?_, ?_⟩
        · rw [hl']; exact copyDisc_commit hb.ids h.feats hs h.cd (h.rc hb)
        · have hovr : Ovr (l.view b (l.loc b)) (l'.view b (l'.loc b)) f.id f :=
            ⟨fun x => by
                rw [loc_view, loc_view, (geom_addFeature hb.ids hb.loc h.feats hr x).2]; simp,
             fun x => by
                rw [geomOf_view, geomOf_view, (geom_addFeature hb.ids hb.loc h.feats hr x).1]; simp⟩
          exact allValid_commit hb.loc h.av (h.rc hb) hovr hp hvalid hrefs
  | tag id t =>
    simp only [Prim.apply]
    cases hs : l.addTag b id t with
    | error e => exact h
    | ok l' =>
      exact ⟨featsId_addTag h.feats hs, refsInv_addTag hb.ids h.feats h.refs hs,
        copyDisc_addTag hb.ids h.feats h.cd hs,
        allValid_sameG (sameG_addTag hb.ids hb.loc h.feats hs) h.av⟩
  | untag id k =>
    simp only [Prim.apply]
    cases hs : l.removeTag b id k with
    | error e => exact h
    | ok l' =>
      exact ⟨featsId_removeTag h.feats hs, refsInv_removeTag hb.ids h.feats h.refs hs,
        copyDisc_removeTag hb.ids h.feats h.cd hs,
        allValid_sameG (sameG_removeTag hb.ids hb.loc h.feats hs) h.av⟩

theorem inv_prims {b : View} {o : Oracle} (hb : BaseOK b) (ps : List Prim) : ∀ l : Layer, Inv b o l →
    (∀ p ∈ ps, primOK p = true) → Inv b o (applyPrims b o l ps).1 := by
  induction ps with
  | nil => intro l h _; exact h
  | cons p rest ih =>
    intro l h hok
    have h1 := inv_prim (o := o) p hb h (hok p List.mem_cons_self)
    simp only [applyPrims]
    cases hp : p.apply b o l with
    | mk l1 r1 =>
      rw [hp] at h1
      cases r1 with
      | none => exact ih l1 h1 (fun q hq => hok q (List.mem_cons_of_mem _ hq))
      | some e => exact h1

/-! ## the canary is faithful: no run-time hypothesis -/

theorem addFeature_verdict_values (b : View) (o : Oracle) (l : Layer) (f : Feature) :
    (l.addFeature b o f).2 = none ∨ (l.addFeature b o f).2 = some Err.invalid := by
  rw [addFeature_verdict]
  split
  · exact Or.inr rfl
  · split
    · exact Or.inl rfl
    · split
      · exact Or.inr rfl
      · exact Or.inl rfl

theorem dep_congr {v v' : View} (hg : ∀ x, geomOf v' x = geomOf v x) (g : Geom) (id : Id) :
    Dep v' g id ↔ Dep v g id := by
  unfold Dep; simp only [hg]

/-- **one `AddFeature` on the canary and on the world: the same answer**, from the invariants alone -/
theorem addFeature_same_verdict_inv {v0 b : View} {o : Oracle} {c l : Layer} {f : Feature}
    (hv0 : BaseOK v0) (hb : BaseOK b) (hs : Sim v0 b c l) (hc : Inv v0 o c) (hl : Inv b o l) :
    (c.addFeature v0 o f).2 = (l.addFeature b o f).2 := by
  have e1 := addFeature_err_iff (f := f) hc.av (hc.rc hv0)
  have e2 := addFeature_err_iff (f := f) hl.av (hl.rc hb)
  have hg := cw_gagree hs.cw (l.loc b) (c.loc v0)
  have hgt := cw_gagree (cw_putTmp hs.cw f) ((l.putTmp f).loc b) ((c.putTmp f).loc v0)
  have hv : ∀ g, validateG (c.view v0 (c.loc v0)) o g = validateG (l.view b (l.loc b)) o g :=
    validateG_congr hg.loc hg.geom o
  have hvt : ∀ g, validateG ((c.putTmp f).view v0 ((c.putTmp f).loc v0)) o g =
      validateG ((l.putTmp f).view b ((l.putTmp f).loc b)) o g := validateG_congr hgt.loc hgt.geom o
  have hbad : Bad (c.view v0 (c.loc v0)) ((c.putTmp f).view v0 ((c.putTmp f).loc v0)) o f.id ↔
      Bad (l.view b (l.loc b)) ((l.putTmp f).view b ((l.putTmp f).loc b)) o f.id := by
    unfold Bad
    constructor
    · rintro ⟨x, g, h1, h2, h3⟩
      exact ⟨x, g, by rw [← hg.geom]; exact h1, (dep_congr hg.geom g f.id).1 h2, by rw [← hvt]; exact h3⟩
    · rintro ⟨x, g, h1, h2, h3⟩
      exact ⟨x, g, by rw [hg.geom]; exact h1, (dep_congr hg.geom g f.id).2 h2, by rw [hvt]; exact h3⟩
  have hiff : (c.addFeature v0 o f).2 ≠ none ↔ (l.addFeature b o f).2 ≠ none := by
    rw [e1, e2, hv, hbad]
  rcases addFeature_verdict_values v0 o c f with h1 | h1 <;>
    rcases addFeature_verdict_values b o l f with h2 | h2
  · rw [h1, h2]
  · exact absurd h1 (hiff.2 (by rw [h2]; simp))
  · exact absurd h2 (hiff.1 (by rw [h1]; simp))
  · rw [h1, h2]

/-- **any sequence of calls**: the canary and the world give the same answer -/
theorem prims_faithful_inv {v0 b : View} {o : Oracle} (hv0 : BaseOK v0) (hb : BaseOK b) (ps : List Prim) :
    ∀ (c l : Layer), Sim v0 b c l → Inv v0 o c → Inv b o l → (∀ p ∈ ps, primOK p = true) →
      (applyPrims v0 o c ps).2 = (applyPrims b o l ps).2 := by
  induction ps with
  | nil => intro c l _ _ _ _; rfl
  | cons p rest ih =>
    intro c l hs hc hl hok
    obtain ⟨hv, hs'⟩ := prim_step (o := o) p hv0.ids hv0.loc hb.ids hb.loc hs
      (fun f _ => addFeature_same_verdict_inv hv0 hb hs hc hl)
    have hc' := inv_prim (o := o) p hv0 hc (hok p List.mem_cons_self)
    have hl' := inv_prim (o := o) p hb hl (hok p List.mem_cons_self)
    simp only [applyPrims]
    cases h1 : p.apply v0 o c with
    | mk c' rc =>
      cases h2 : p.apply b o l with
      | mk l' rl =>
        rw [h1, h2] at hv hs'
        rw [h1] at hc'
        rw [h2] at hl'
        simp only at hv hs' hc' hl'
        subst hv
        cases rc with
        | none => exact ih c' l' hs' hc' hl' (fun q hq => hok q (List.mem_cons_of_mem _ hq))
        | some e => rfl

/-- a fresh overlay over a world that satisfies the invariants: its base is fine, it satisfies them too -/
theorem canary_init {b : View} {o : Oracle} {l : Layer} (hb : BaseOK b) (h : Inv b o l) :
    BaseOK (l.view b (l.loc b)) ∧ Inv (l.view b (l.loc b)) o Layer.empty := by
  refine ⟨⟨view_idsOK hb.ids h.feats _, view_locOK hb.loc l _, h.rc hb⟩,
    ⟨fun i f hf => by simp [Layer.empty] at hf, refsInv_empty, copyDisc_empty _, ?_⟩⟩
  have hloc : (Layer.empty.view (l.view b (l.loc b)) (Layer.empty.loc (l.view b (l.loc b)))).loc =
      (l.view b (l.loc b)).loc := by
    funext x; rw [loc_view]; simp [layerLoc, Layer.empty]
  have hgeo : ∀ x, geomOf (Layer.empty.view (l.view b (l.loc b)) (Layer.empty.loc (l.view b (l.loc b)))) x =
      geomOf (l.view b (l.loc b)) x := by
    intro x; rw [geomOf_view]; simp [layerGeom, Layer.empty]
  intro x g hg
  rw [validateG_congr hloc hgeo]
  exact h.av x g (by rw [← hgeo]; exact hg)

/-- a fresh overlay over a valid base satisfies the invariants -/
theorem inv_empty {b : View} {o : Oracle} (hav : AllValid b o) : Inv b o Layer.empty := by
  refine ⟨fun i f hf => by simp [Layer.empty] at hf, refsInv_empty, copyDisc_empty _, ?_⟩
  have hloc : (Layer.empty.view b (Layer.empty.loc b)).loc = b.loc := by
    funext x; rw [loc_view]; simp [layerLoc, Layer.empty]
  have hgeo : ∀ x, geomOf (Layer.empty.view b (Layer.empty.loc b)) x = geomOf b x := by
    intro x; rw [geomOf_view]; simp [layerGeom, Layer.empty]
  intro x g hg
  rw [validateG_congr hloc hgeo]
  exact hav x g (by rw [← hgeo]; exact hg)

def changesOK (cs : List Change) : Prop := ∀ p ∈ cs.flatMap Change.prims, primOK p = true

def opOKsf : Op → Prop
  | .addFeature f => selfFree f = true
  | .merged cs => changesOK cs
  | _ => True

/-- every operation of the mutable world keeps the invariants, whatever it answers -/
theorem inv_step {b : View} {o : Oracle} {l : Layer} (op : Op) (hb : BaseOK b) (h : Inv b o l) (hop : opOKsf op) :
    Inv b o (l.step b o op).1 := by
  cases op with
  | addFeature f => exact inv_prim (.feat f) hb h hop
  | addTag id t =>
    have := inv_prim (o := o) (.tag id t) hb h rfl
    simp only [Prim.apply] at this
    simp only [Layer.step]
    cases hs : l.addTag b id t with
    | ok l' => rw [hs] at this; exact this
    | error e => exact h
  | removeTag id k =>
    have := inv_prim (o := o) (.untag id k) hb h rfl
    simp only [Prim.apply] at this
    simp only [Layer.step]
    cases hs : l.removeTag b id k with
    | ok l' => rw [hs] at this; exact this
    | error e => exact h
  | merged cs =>
    simp only [Layer.step]
    have hall := inv_prims (o := o) hb (cs.flatMap Change.prims) l h hop
    rw [← applyAll_eq_prims] at hall
    rcases mergedApply_cases b o l cs with ⟨e, _, he, _⟩ | ⟨l1, h1, h2⟩ | ⟨l1, e, h1, h2, _⟩
    · rw [he]; exact h
    · rw [h1]; rw [h2] at hall; exact hall
    · rw [h1]; rw [h2] at hall; exact hall

theorem inv_runOps {b : View} {o : Oracle} (hb : BaseOK b) (ops : List Op) : ∀ l : Layer, Inv b o l →
    (∀ op ∈ ops, opOKsf op) → Inv b o (runOps b o l ops).1 := by
  induction ops with
  | nil => intro l h _; exact h
  | cons op rest ih =>
    intro l h hok
    simp only [runOps]
    exact ih _ (inv_step op hb h (hok op List.mem_cons_self)) (fun q hq => hok q (List.mem_cons_of_mem _ hq))

/-! ## the drivers' root world meets the assumptions -/

theorem mem_rootRefs (fs : List Feature) (t s : Id) :
    s ∈ sources (rootRefs fs) t ↔ ∃ f ∈ fs, s = f.id ∧ t ∈ geomRefs f.geom := by
  unfold rootRefs
  rw [mem_addCopies]
  simp [sources]

theorem rootView_refsComplete (fs : List Feature) : RefsComplete (rootView fs) := by
  intro id x gx hgx hdep
  have hfeat : ∀ y gy, geomOf (rootView fs) y = some gy → ∃ g ∈ fs, g.id = y ∧ g.geom = gy ∧
      AMap.get (rootFeats fs) y = some g := by
    intro y gy h
    simp only [rootView, geomOf, rootFind, Option.map_map] at h
    cases hg : AMap.get (rootFeats fs) y with
    | none => simp [hg] at h
    | some g =>
      simp only [hg, Option.map_some, Function.comp_apply, Option.some.injEq] at h
      exact ⟨g, (rootFeats_get hg).2, (rootFeats_get hg).1, h, rfl⟩
  obtain ⟨g, hgfs, hgid, hggeo, hget⟩ := hfeat x gx hgx
  show x ∈ (dedup (closure (rootRefs fs) (refDepth (rootRefs fs)) id)).filter
    (fun r => AMap.contains (rootFeats fs) r)
  simp only [List.mem_filter, mem_dedup, AMap.contains, hget, Option.isSome_some, and_true]
  rcases hdep with hd | ⟨P, hP, gP, hgP, hidP⟩
  · exact closure_refDepth_direct ((mem_rootRefs fs id x).2 ⟨g, hgfs, hgid.symm, by rw [hggeo]; exact hd⟩)
  · obtain ⟨p, hpfs, hpid, hpgeo, _⟩ := hfeat P gP hgP
    exact closure_refDepth_two ((mem_rootRefs fs id P).2 ⟨p, hpfs, hpid.symm, by rw [hpgeo]; exact hidP⟩)
      ((mem_rootRefs fs P x).2 ⟨g, hgfs, hgid.symm, by rw [hggeo]; exact hP⟩)

theorem rootView_baseOK (fs : List Feature) : BaseOK (rootView fs) :=
  ⟨rootView_idsOK fs, rootView_locOK fs, rootView_refsComplete fs⟩

/-- validity of a root world is a finite check -/
theorem rootView_allValid (fs : List Feature) (o : Oracle)
    (h : (rootFeats fs).all (fun e => validateG (rootView fs) o e.2.geom) = true) : AllValid (rootView fs) o := by
  intro x g hg
  simp only [rootView, geomOf, rootFind, Option.map_map] at hg
  cases hget : AMap.get (rootFeats fs) x with
  | none => simp [hget] at hg
  | some f =>
    simp only [hget, Option.map_some, Function.comp_apply, Option.some.injEq] at hg
    rw [List.all_eq_true] at h
    have := h (x, f) (AMap.get_some_mem hget)
    rw [← hg]; exact this

end B6.Model.Mutable
