import B6.Lemmas.Validate
/-!
C37: invariant of the streaming `compact.Validator` (`run_inv`): what it emits is valid.
-/
namespace B6.Lemmas.Validator
open B6.Model.Validate B6.Lemmas.Validate

theorem find_filter_ne (ps : List (Id × VState)) (id id' : Id) (h : id' ≠ id) :
    (ps.filter (fun p => decide (p.1 ≠ id))).find? (fun p => decide (p.1 = id')) =
      ps.find? (fun p => decide (p.1 = id')) := by
  induction ps with
  | nil => rfl
  | cons p ps ih =>
    by_cases hp : p.1 = id
    · have hp' : ¬ p.1 = id' := fun e => h (by rw [← e, hp])
      rw [List.filter_cons_of_neg (by simp [hp]), List.find?_cons_of_neg (by simpa using hp')]
      exact ih
    · rw [List.filter_cons_of_pos (by simp [hp])]
      by_cases hp2 : p.1 = id'
      · rw [List.find?_cons_of_pos (by simpa using hp2), List.find?_cons_of_pos (by simpa using hp2)]
      · rw [List.find?_cons_of_neg (by simpa using hp2), List.find?_cons_of_neg (by simpa using hp2)]
        exact ih

theorem state_set (v : Validator) (id id' : Id) (s : VState) :
    (v.set id s).state id' = if id' = id then some s else v.state id' := by
  unfold Validator.set Validator.state
  by_cases h : id' = id
  · subst h
    rw [List.find?_cons_of_pos (by simp)]
    simp
  · have : ¬ id = id' := fun e => h e.symm
    rw [List.find?_cons_of_neg (by simpa using this), if_neg h, find_filter_ne _ _ _ h]

/-- one step of `validateArea`'s loop -/
def checkStep (acc : Validator × VState) (pid : Id) : Validator × VState :=
  match acc.1.state pid with
  | some s =>
    if s = .invalid || s = .validNotLoop then (acc.1, .invalid)
    else if s = .unknown && acc.2 = .valid then (acc.1, .unknown)
    else (acc.1, acc.2)
  | none => (acc.1.set pid .unknown, if acc.2 = .valid then .unknown else acc.2)

theorem checkArea_eq (v : Validator) (polys : List (List Id)) :
    v.checkArea polys = polys.flatten.foldl checkStep (v, .valid) := by
  unfold Validator.checkArea
  congr 1

theorem checkStep_spec (acc : Validator × VState) (pid : Id) :
    (∀ id, (checkStep acc pid).1.state id = some .valid ↔ acc.1.state id = some .valid) ∧
    (checkStep acc pid).1.points = acc.1.points ∧ (checkStep acc pid).1.queue = acc.1.queue ∧
    ((checkStep acc pid).2 = .valid → acc.2 = .valid ∧ acc.1.state pid = some .valid) := by
  cases hs : acc.1.state pid with
  | none =>
    have he : checkStep acc pid = (acc.1.set pid .unknown, if acc.2 = .valid then .unknown else acc.2) := by
      simp only [checkStep, hs]
    rw [he]
    refine ⟨?_, rfl, rfl, ?_⟩
    · intro id
      simp only [state_set]
      by_cases h : id = pid
      · subst h; simp [hs]
      · simp [h]
    · intro h
      simp only at h
      split at h
      · cases h
      · rename_i hne; exact absurd h hne
  | some s =>
    cases s with
    | valid =>
      have he : checkStep acc pid = (acc.1, acc.2) := by simp [checkStep, hs]
      rw [he]
      exact ⟨fun _ => Iff.rfl, rfl, rfl, fun h => ⟨h, rfl⟩⟩
    | invalid =>
      have he : checkStep acc pid = (acc.1, .invalid) := by simp [checkStep, hs]
      rw [he]
      exact ⟨fun _ => Iff.rfl, rfl, rfl, fun h => by cases h⟩
    | validNotLoop =>
      have he : checkStep acc pid = (acc.1, .invalid) := by simp [checkStep, hs]
      rw [he]
      exact ⟨fun _ => Iff.rfl, rfl, rfl, fun h => by cases h⟩
    | unknown =>
      by_cases hv : acc.2 = .valid
      · have he : checkStep acc pid = (acc.1, .unknown) := by simp [checkStep, hs, hv]
        rw [he]
        exact ⟨fun _ => Iff.rfl, rfl, rfl, fun h => by cases h⟩
      · have he : checkStep acc pid = (acc.1, acc.2) := by simp [checkStep, hs, hv]
        rw [he]
        exact ⟨fun _ => Iff.rfl, rfl, rfl, fun h => absurd h hv⟩

theorem checkFold_spec : ∀ (ids : List Id) (acc : Validator × VState),
    (∀ id, (ids.foldl checkStep acc).1.state id = some .valid ↔ acc.1.state id = some .valid) ∧
    (ids.foldl checkStep acc).1.points = acc.1.points ∧ (ids.foldl checkStep acc).1.queue = acc.1.queue ∧
    ((ids.foldl checkStep acc).2 = .valid → acc.2 = .valid ∧ ∀ pid ∈ ids, acc.1.state pid = some .valid) := by
  intro ids
  induction ids with
  | nil => intro acc; exact ⟨fun _ => Iff.rfl, rfl, rfl, fun h => ⟨h, by intro p hp; cases hp⟩⟩
  | cons a ids ih =>
    intro acc
    simp only [List.foldl_cons]
    obtain ⟨h1, h2, h3, h4⟩ := ih (checkStep acc a)
    obtain ⟨s1, s2, s3, s4⟩ := checkStep_spec acc a
    refine ⟨fun id => (h1 id).trans (s1 id), h2.trans s2, h3.trans s3, ?_⟩
    intro h
    obtain ⟨h5, h6⟩ := h4 h
    obtain ⟨h7, h8⟩ := s4 h5
    refine ⟨h7, ?_⟩
    intro pid hp
    rcases List.mem_cons.mp hp with rfl | hp
    · exact h8
    · exact (s1 pid).mp (h6 pid hp)

theorem checkArea_spec (v : Validator) (polys : List (List Id)) :
    (∀ id, (v.checkArea polys).1.state id = some .valid ↔ v.state id = some .valid) ∧
    (v.checkArea polys).1.points = v.points ∧ (v.checkArea polys).1.queue = v.queue ∧
    ((v.checkArea polys).2 = .valid → ∀ pid ∈ polys.flatten, v.state pid = some .valid) := by
  rw [checkArea_eq]
  obtain ⟨h1, h2, h3, h4⟩ := checkFold_spec polys.flatten (v, .valid)
  exact ⟨h1, h2, h3, fun h => (h4 h).2⟩

theorem drainQueue_eq (v : Validator) :
    v.drainQueue = ({ (v.queue.foldl drainStep (v, [], [])).1 with queue := (v.queue.foldl drainStep (v, [], [])).2.1 },
      (v.queue.foldl drainStep (v, [], [])).2.2) := by
  rfl

/-- an emitted area: all its paths are known to be valid loops -/
def AreaReady (v : Validator) (a : Feat) : Prop :=
  ∃ polys, a.geo = .area polys ∧ ∀ pid ∈ polys.flatten, v.state pid = some .valid

theorem drainStep_spec (acc : Validator × List Feat × List Feat) (a : Feat) :
    (∀ id, (drainStep acc a).1.state id = some .valid ↔ acc.1.state id = some .valid) ∧
    (drainStep acc a).1.points = acc.1.points ∧
    (∀ x ∈ (drainStep acc a).2.2, x ∈ acc.2.2 ∨ AreaReady acc.1 x) := by
  unfold drainStep
  cases hg : a.geo with
  | area polys =>
    obtain ⟨c1, c2, _, c4⟩ := checkArea_spec acc.1 polys
    simp only
    split
    · rename_i hv
      refine ⟨c1, c2, ?_⟩
      intro x hx
      rcases List.mem_append.mp hx with hx | hx
      · exact Or.inl hx
      · simp only [List.mem_singleton] at hx; subst hx
        exact Or.inr ⟨polys, hg, c4 hv⟩
    · split <;> exact ⟨c1, c2, fun x hx => Or.inl hx⟩
  | point _ => exact ⟨fun _ => Iff.rfl, rfl, fun x hx => Or.inl hx⟩
  | path _ => exact ⟨fun _ => Iff.rfl, rfl, fun x hx => Or.inl hx⟩
  | other _ => exact ⟨fun _ => Iff.rfl, rfl, fun x hx => Or.inl hx⟩

theorem areaReady_congr {v v' : Validator} (h : ∀ id, v'.state id = some .valid ↔ v.state id = some .valid)
    {a : Feat} (ha : AreaReady v' a) : AreaReady v a := by
  obtain ⟨polys, h1, h2⟩ := ha
  exact ⟨polys, h1, fun pid hp => (h pid).mp (h2 pid hp)⟩

theorem drainFold_spec : ∀ (q : List Feat) (acc : Validator × List Feat × List Feat),
    (∀ id, (q.foldl drainStep acc).1.state id = some .valid ↔ acc.1.state id = some .valid) ∧
    (q.foldl drainStep acc).1.points = acc.1.points ∧
    (∀ x ∈ (q.foldl drainStep acc).2.2, x ∈ acc.2.2 ∨ AreaReady acc.1 x) := by
  intro q
  induction q with
  | nil => intro acc; exact ⟨fun _ => Iff.rfl, rfl, fun x hx => Or.inl hx⟩
  | cons a q ih =>
    intro acc
    simp only [List.foldl_cons]
    obtain ⟨h1, h2, h3⟩ := ih (drainStep acc a)
    obtain ⟨s1, s2, s3⟩ := drainStep_spec acc a
    refine ⟨fun id => (h1 id).trans (s1 id), h2.trans s2, ?_⟩
    intro x hx
    rcases h3 x hx with h | h
    · exact s3 x h
    · exact Or.inr (areaReady_congr s1 h)

theorem drainQueue_spec (v : Validator) :
    (∀ id, v.drainQueue.1.state id = some .valid ↔ v.state id = some .valid) ∧
    v.drainQueue.1.points = v.points ∧ (∀ x ∈ v.drainQueue.2, AreaReady v x) := by
  rw [drainQueue_eq]
  obtain ⟨h1, h2, h3⟩ := drainFold_spec v.queue (v, [], [])
  refine ⟨h1, h2, ?_⟩
  intro x hx
  rcases h3 x hx with h | h
  · cases h
  · exact h

/-- the paths the validator believes to be valid loops have been emitted as such -/
def PathsOK (pts : World) (v : Validator) (E : List Feat) : Prop :=
  ∀ id, v.state id = some .valid → ∃ refs, (⟨id, .path refs⟩ : Feat) ∈ E ∧ isLoop pts refs = true

/-- what the property demands of the emitted features -/
def Emitted (O : Oracle) (pts : World) (E : List Feat) : Prop :=
  (∀ i refs, (⟨i, .path refs⟩ : Feat) ∈ E → valid O pts ⟨i, .path refs⟩ = true) ∧
  (∀ i polys, (⟨i, .area polys⟩ : Feat) ∈ E → ∀ pid ∈ polys.flatten,
      ∃ refs, (⟨pid, .path refs⟩ : Feat) ∈ E ∧ isLoop pts refs = true)

theorem state_congr_paths {v v' : Validator} (h : ∀ id, v'.state id = some .valid ↔ v.state id = some .valid)
    {pts : World} {E : List Feat} (hp : PathsOK pts v E) : PathsOK pts v' E :=
  fun id hid => hp id ((h id).mp hid)

theorem pathsOK_mono {pts : World} {v : Validator} {E E' : List Feat} (hp : PathsOK pts v E)
    (hsub : ∀ x ∈ E, x ∈ E') : PathsOK pts v E' := by
  intro id hid
  obtain ⟨refs, h1, h2⟩ := hp id hid
  exact ⟨refs, hsub _ h1, h2⟩

theorem emitted_area {pts : World} {v : Validator} {E : List Feat} (hp : PathsOK pts v E) {a : Feat}
    (ha : AreaReady v a) : ∀ i polys, a = ⟨i, .area polys⟩ → ∀ pid ∈ polys.flatten,
      ∃ refs, (⟨pid, .path refs⟩ : Feat) ∈ E ∧ isLoop pts refs = true := by
  intro i polys he pid hpid
  obtain ⟨polys', h1, h2⟩ := ha
  subst he
  simp only at h1
  injection h1 with h1; subst h1
  exact hp pid (h2 pid hpid)

theorem valid_of_ok {O : Oracle} {pts : World} {i : Id} {refs : List Id} (h : validatePath O pts refs = .ok) :
    valid O pts ⟨i, .path refs⟩ = true := by
  unfold validatePath at h
  split at h
  · cases h
  · rename_i hlen
    split at h
    · cases h
    · rename_i slots hs
      simp only [valid, hs]
      by_cases hc : closedRefs refs = true
      · simp only [hc, ↓reduceIte] at h
        split at h
        · cases h
        · split at h
          · cases h
          · rename_i h1 h2
            have h1' : O.loopValid slots.dropLast = true := by simpa using h1
            have h2' : O.ccw slots.dropLast = true := by simpa using h2
            simp [h1', h2']; omega
      · simp [hc]; omega

theorem len_of_not_invalid {O : Oracle} {pts : World} {refs : List Id} (h : validatePath O pts refs ≠ .invalid) :
    2 ≤ refs.length := by
  unfold validatePath at h
  split at h
  · exact absurd rfl h
  · omega

/-- the contract on one fed feature -/
def featContract (O : Oracle) (pts : World) (f : Feat) : Prop :=
  ∀ refs, f.geo = .path refs → validatePath O pts refs = .clockwise →
    ∃ slots, pathSlots pts refs.reverse = some slots ∧ O.loopValid slots.dropLast = true ∧ O.ccw slots.dropLast = true

theorem areaReady_not_path {v : Validator} {i : Id} {refs : List Id} (h : AreaReady v ⟨i, .path refs⟩) : False := by
  obtain ⟨polys, h1, _⟩ := h
  cases h1

theorem feed_tail (O : Oracle) (pts : World) (v : Validator) (E : List Feat) (fi : Id) (refs : List Id)
    (hpts : v.points = pts) (hp : PathsOK pts v E) (he : Emitted O pts E)
    (hvalid : valid O pts ⟨fi, .path refs⟩ = true) (st : VState) (hst : st = .valid → isLoop pts refs = true) :
    (if (v.state fi).isSome = true then ((v.set fi st).drainQueue.1, [(⟨fi, .path refs⟩ : Feat)] ++ (v.set fi st).drainQueue.2)
      else (v.set fi st, [(⟨fi, .path refs⟩ : Feat)])).1.points = pts ∧
    PathsOK pts (if (v.state fi).isSome = true then ((v.set fi st).drainQueue.1, [(⟨fi, .path refs⟩ : Feat)] ++ (v.set fi st).drainQueue.2)
      else (v.set fi st, [(⟨fi, .path refs⟩ : Feat)])).1
      (E ++ (if (v.state fi).isSome = true then ((v.set fi st).drainQueue.1, [(⟨fi, .path refs⟩ : Feat)] ++ (v.set fi st).drainQueue.2)
      else (v.set fi st, [(⟨fi, .path refs⟩ : Feat)])).2) ∧
    Emitted O pts (E ++ (if (v.state fi).isSome = true then ((v.set fi st).drainQueue.1, [(⟨fi, .path refs⟩ : Feat)] ++ (v.set fi st).drainQueue.2)
      else (v.set fi st, [(⟨fi, .path refs⟩ : Feat)])).2) := by
  have hset : PathsOK pts (v.set fi st) (E ++ [(⟨fi, .path refs⟩ : Feat)]) := by
    intro id hid
    rw [state_set] at hid
    by_cases h : id = fi
    · subst h
      simp only [↓reduceIte, Option.some.injEq] at hid
      exact ⟨refs, List.mem_append_right _ (by simp), hst hid⟩
    · simp only [h, ↓reduceIte] at hid
      obtain ⟨r, h1, h2⟩ := hp id hid
      exact ⟨r, List.mem_append_left _ h1, h2⟩
  have hem : Emitted O pts (E ++ [(⟨fi, .path refs⟩ : Feat)]) := by
    constructor
    · intro i r hm
      rcases List.mem_append.mp hm with hm | hm
      · exact he.1 i r hm
      · simp only [List.mem_singleton] at hm
        injection hm with h1 h2; injection h2 with h2; subst h1; subst h2
        exact hvalid
    · intro i polys hm pid hpid
      rcases List.mem_append.mp hm with hm | hm
      · obtain ⟨r, h1, h2⟩ := he.2 i polys hm pid hpid
        exact ⟨r, List.mem_append_left _ h1, h2⟩
      · simp at hm
  split
  · obtain ⟨d1, d2, d3⟩ := drainQueue_spec (v.set fi st)
    refine ⟨by rw [d2]; exact hpts, ?_, ?_⟩
    · rw [← List.append_assoc]
      exact pathsOK_mono (state_congr_paths d1 hset) (fun x hx => List.mem_append_left _ hx)
    · rw [← List.append_assoc]
      constructor
      · intro i r hm
        rcases List.mem_append.mp hm with hm | hm
        · exact hem.1 i r hm
        · exact (areaReady_not_path (d3 _ hm)).elim
      · intro i polys hm pid hpid
        rcases List.mem_append.mp hm with hm | hm
        · obtain ⟨r, h1, h2⟩ := hem.2 i polys hm pid hpid
          exact ⟨r, List.mem_append_left _ h1, h2⟩
        · obtain ⟨r, h1, h2⟩ := emitted_area hset (d3 _ hm) i polys rfl pid hpid
          exact ⟨r, List.mem_append_left _ h1, h2⟩
  · exact ⟨hpts, hset, hem⟩

theorem feed_inv (O : Oracle) (pts : World) (v : Validator) (E : List Feat) (f : Feat)
    (hpts : v.points = pts) (hp : PathsOK pts v E) (he : Emitted O pts E) (hc : featContract O pts f) :
    (v.feed O f).1.points = pts ∧ PathsOK pts (v.feed O f).1 (E ++ (v.feed O f).2) ∧
    Emitted O pts (E ++ (v.feed O f).2) := by
  obtain ⟨fi, fg⟩ := f
  cases fg with
  | point l =>
    simp only [Validator.feed]
    refine ⟨hpts, pathsOK_mono hp (fun x hx => List.mem_append_left _ hx), ?_, ?_⟩
    · intro i refs hm
      rcases List.mem_append.mp hm with hm | hm
      · exact he.1 i refs hm
      · simp at hm
    · intro i polys hm pid hpid
      rcases List.mem_append.mp hm with hm | hm
      · obtain ⟨refs, h1, h2⟩ := he.2 i polys hm pid hpid
        exact ⟨refs, List.mem_append_left _ h1, h2⟩
      · simp at hm
  | other l =>
    simp only [Validator.feed]
    refine ⟨hpts, pathsOK_mono hp (fun x hx => List.mem_append_left _ hx), ?_, ?_⟩
    · intro i refs hm
      rcases List.mem_append.mp hm with hm | hm
      · exact he.1 i refs hm
      · simp at hm
    · intro i polys hm pid hpid
      rcases List.mem_append.mp hm with hm | hm
      · obtain ⟨refs, h1, h2⟩ := he.2 i polys hm pid hpid
        exact ⟨refs, List.mem_append_left _ h1, h2⟩
      · simp at hm
  | area polys =>
    obtain ⟨c1, c2, c3, c4⟩ := checkArea_spec v polys
    simp only [Validator.feed]
    have hp1 : PathsOK pts (v.checkArea polys).1 E := state_congr_paths c1 hp
    split
    · rename_i hv
      refine ⟨by rw [c2]; exact hpts, pathsOK_mono hp1 (fun x hx => List.mem_append_left _ hx), ?_, ?_⟩
      · intro i refs hm
        rcases List.mem_append.mp hm with hm | hm
        · exact he.1 i refs hm
        · simp at hm
      · intro i polys' hm pid hpid
        rcases List.mem_append.mp hm with hm | hm
        · obtain ⟨refs, h1, h2⟩ := he.2 i polys' hm pid hpid
          exact ⟨refs, List.mem_append_left _ h1, h2⟩
        · simp only [List.mem_singleton] at hm
          injection hm with hi hg; injection hg with hg; subst hg
          obtain ⟨refs, h1, h2⟩ := hp pid (c4 hv pid hpid)
          exact ⟨refs, List.mem_append_left _ h1, h2⟩
    · split
      · refine ⟨by simp only; rw [c2]; exact hpts, ?_, ?_⟩
        · simp only [List.append_nil]
          intro id hid
          exact hp1 id hid
        · simpa using he
      · refine ⟨by rw [c2]; exact hpts, ?_, ?_⟩
        · simpa using hp1
        · simpa using he
  | path refs =>
    simp only [Validator.feed, hpts]
    -- the verdict, the emitted version of the path, and the state recorded for it
    cases hvp : validatePath O pts refs with
    | invalid =>
      simp only
      have hset : PathsOK pts (v.set fi .invalid) E := by
        intro id hid
        rw [state_set] at hid
        by_cases h : id = fi
        · simp [h] at hid
        · simp only [h, ↓reduceIte] at hid; exact hp id hid
      split
      · obtain ⟨d1, d2, d3⟩ := drainQueue_spec (v.set fi .invalid)
        refine ⟨by rw [d2]; exact hpts, ?_, ?_⟩
        · exact pathsOK_mono (state_congr_paths d1 hset) (fun x hx => List.mem_append_left _ hx)
        · constructor
          · intro i r hm
            rcases List.mem_append.mp hm with hm | hm
            · exact he.1 i r hm
            · simp only [List.nil_append] at hm
              exact (areaReady_not_path (d3 _ hm)).elim
          · intro i polys hm pid hpid
            rcases List.mem_append.mp hm with hm | hm
            · obtain ⟨r, h1, h2⟩ := he.2 i polys hm pid hpid
              exact ⟨r, List.mem_append_left _ h1, h2⟩
            · simp only [List.nil_append] at hm
              obtain ⟨r, h1, h2⟩ := emitted_area hset (d3 _ hm) i polys rfl pid hpid
              exact ⟨r, List.mem_append_left _ h1, h2⟩
      · refine ⟨hpts, ?_, ?_⟩
        · simpa using hset
        · simpa using he
    | ok =>
      simp only
      have hvalid : valid O pts ⟨fi, .path refs⟩ = true := valid_of_ok hvp
      by_cases hl : isLoop pts refs = true
      · simp only [hl, ↓reduceIte]
        exact feed_tail O pts v E fi refs hpts hp he hvalid .valid (fun _ => hl)
      · simp only [hl, Bool.false_eq_true, ↓reduceIte]
        exact feed_tail O pts v E fi refs hpts hp he hvalid .validNotLoop (fun h => by cases h)
    | clockwise =>
      simp only
      obtain ⟨slots, hs, h1, h2⟩ := hc refs rfl hvp
      have hlen := len_of_not_invalid (O := O) (pts := pts) (refs := refs) (by rw [hvp]; intro e; cases e)
      have hvalid : valid O pts ⟨fi, .path refs.reverse⟩ = true := by
        simp only [valid, hs, List.length_reverse]
        simp [h1, h2, hlen]
      by_cases hl : isLoop pts refs.reverse = true
      · simp only [hl, ↓reduceIte]
        exact feed_tail O pts v E fi refs.reverse hpts hp he hvalid .valid (fun _ => hl)
      · simp only [hl, Bool.false_eq_true, ↓reduceIte]
        exact feed_tail O pts v E fi refs.reverse hpts hp he hvalid .validNotLoop (fun h => by cases h)

/-- **validator_emits_valid.** Whatever the order of the stream: every path the validator emits is valid
with respect to the points, and every area it emits names only paths it has emitted as closed loops. -/
theorem run_inv (O : Oracle) (pts : World) : ∀ (src : List Feat) (v : Validator) (E : List Feat),
    v.points = pts → PathsOK pts v E → Emitted O pts E → (∀ f ∈ src, featContract O pts f) →
    Emitted O pts (E ++ (Validator.run O v src).2) := by
  intro src
  induction src with
  | nil => intro v E _ _ he _; simpa [Validator.run] using he
  | cons f fs ih =>
    intro v E hpts hp he hc
    obtain ⟨h1, h2, h3⟩ := feed_inv O pts v E f hpts hp he (hc f List.mem_cons_self)
    have := ih (v.feed O f).1 (E ++ (v.feed O f).2) h1 h2 h3 (fun g hg => hc g (List.mem_cons_of_mem _ hg))
    simp only [Validator.run]
    rw [← List.append_assoc]
    exact this

end B6.Lemmas.Validator
