import B6.Model.VM
/-!
Helper lemmas for C21 `stack_shape`: a static stack-depth discipline of the compiled code.
-/
namespace B6.Lemmas.VMShape
open B6.Model B6.Model.VM

/-- Stack depth after running `is` from depth `d`, every call taken to leave exactly one result in
place of its frame and arguments (what the three `CallFromStack` do when they succeed).
`none` = an instruction would index below the bottom of `VM.Stack` (a Go panic). `Return` ends the
activation. -/
def depth : List Instr → Nat → Option Nat
  | [], d => some d
  | i :: is, d =>
    match i with
    | .ret => some d
    | .pushVal _ => depth is (d + 1)
    | .pushFn _ => depth is (d + 1)
    | .pushLam _ _ => depth is (d + 1)
    | .load _ => depth is (d + 1)
    | .store _ => if d ≥ 2 then depth is (d - 1) else none
    | .discard => if d ≥ 2 then depth is (d - 1) else none
    | .callFn _ n => if d ≥ n then depth is (d - n + 1) else none
    | .callLam _ _ n => if d ≥ n then depth is (d - n + 1) else none
    | .callStack n => if d ≥ n + 1 then depth is (d - n) else none

/-- every register an instruction names is below `n` -/
def regOK (n : Nat) : Instr → Bool
  | .store r => decide (r < n)
  | .load r => decide (r < n)
  | _ => true

def noRet : Instr → Bool
  | .ret => false
  | _ => true

theorem depth_append : ∀ (is js : List Instr) (d : Nat), is.all noRet = true →
    depth (is ++ js) d = (depth is d).bind (depth js)
  | [], js, d, _ => by simp [depth]
  | i :: is, js, d, h => by
    simp only [List.all_cons, Bool.and_eq_true] at h
    cases i <;> simp_all [depth, noRet, depth_append is js] <;> split <;> simp_all [depth_append is js]

theorem regOK_mono {n m : Nat} (h : n ≤ m) : ∀ (is : List Instr), is.all (regOK n) = true → is.all (regOK m) = true
  | [], _ => rfl
  | i :: is, hi => by
    simp only [List.all_cons, Bool.and_eq_true] at hi ⊢
    refine ⟨?_, regOK_mono h is hi.2⟩
    cases i <;> simp_all [regOK] <;> omega

def FrameOK (n : Nat) (frame : Frame) : Prop := ∀ p ∈ frame, p.2 < n

def TargetOK (n : Nat) (t : Target) : Prop := FrameOK n t.frame ∧ ∀ r ∈ t.own, r < n

def Inv (st : CState) : Prop := st.numArgs ≤ maxArgs ∧ ∀ t ∈ st.queue, TargetOK st.numArgs t

theorem TargetOK_mono {n m : Nat} (h : n ≤ m) {t : Target} (ht : TargetOK n t) : TargetOK m t :=
  ⟨fun p hp => Nat.lt_of_lt_of_le (ht.1 p hp) h, fun r hr => Nat.lt_of_lt_of_le (ht.2 r hr) h⟩

theorem lookup_mem {frame : Frame} {s : String} {r : Nat} (h : frame.lookup s = some r) : (s, r) ∈ frame := by
  induction frame with
  | nil => simp [List.lookup] at h
  | cons p ps ih =>
    obtain ⟨k, v⟩ := p
    simp only [List.lookup] at h
    split at h
    · rename_i heq
      injection h with h; subst h
      simp only [beq_iff_eq] at heq
      subst heq
      exact List.mem_cons_self
    · exact List.mem_cons_of_mem _ (ih h)

theorem bindParams_ok : ∀ (ps : List String) (n : Nat) (own : List (String × Nat)),
    bindParams ps n = .ok own → n ≤ maxArgs →
    (∀ p ∈ own, p.2 < n + ps.length) ∧ n + ps.length ≤ maxArgs ∧ own.length = ps.length
  | [], n, own, h, hn => by
    simp only [bindParams] at h
    injection h with h; subst h
    simp [hn]
  | p :: ps, n, own, h, hn => by
    simp only [bindParams] at h
    split at h
    · cases h
    · rename_i hlt
      cases hr : bindParams ps (n + 1) with
      | error e => simp [hr] at h
      | ok rest =>
        simp only [hr] at h
        injection h with h; subst h
        have hn' : n + 1 ≤ maxArgs := by omega
        obtain ⟨h1, h2, h3⟩ := bindParams_ok ps (n + 1) rest hr hn'
        refine ⟨?_, by simp only [List.length_cons]; omega, by simp [h3]⟩
        intro q hq
        simp only [List.mem_cons] at hq
        rcases hq with rfl | hq
        · simp only [List.length_cons]; omega
        · have := h1 q hq
          simp only [List.length_cons]; omega

/-- what compiling one expression guarantees -/
structure ExprShape (frame : Frame) (st st' : CState) (is : List Instr) (k : Nat) : Prop where
  inv : Inv st'
  mono : st.numArgs ≤ st'.numArgs
  noret : is.all noRet = true
  depth : ∀ d, depth is d = some (d + k)
  regs : is.all (regOK st'.numArgs) = true

theorem compileLambda_ok {frame : Frame} {ps : List String} {body : Expr} {st st' : CState} {t : Nat}
    (h : compileLambda frame ps body st = .ok (t, st')) (hf : FrameOK st.numArgs frame) (hi : Inv st) :
    Inv st' ∧ st.numArgs ≤ st'.numArgs := by
  unfold compileLambda at h
  cases hb : bindParams ps st.numArgs with
  | error e => simp [hb] at h
  | ok own =>
    simp only [hb] at h
    injection h with h
    injection h with _ h
    subst h
    obtain ⟨h1, h2, _⟩ := bindParams_ok ps st.numArgs own hb hi.1
    refine ⟨⟨h2, ?_⟩, by simp⟩
    intro tg htg
    simp only [List.mem_append, List.mem_singleton] at htg
    rcases htg with htg | rfl
    · exact TargetOK_mono (by simp) (hi.2 tg htg)
    · refine ⟨?_, ?_⟩
      · intro p hp
        simp only [List.mem_append] at hp
        rcases hp with hp | hp
        · exact h1 p hp
        · exact Nat.lt_of_lt_of_le (hf p hp) (by simp)
      · intro r hr
        simp only [List.mem_map] at hr
        obtain ⟨p, hp, rfl⟩ := hr
        exact h1 p hp


theorem FrameOK_mono {n m : Nat} (h : n ≤ m) {frame : Frame} (hf : FrameOK n frame) : FrameOK m frame :=
  fun p hp => Nat.lt_of_lt_of_le (hf p hp) h

theorem all_append {α} (p : α → Bool) (a b : List α) : (a ++ b).all p = (a.all p && b.all p) := by simp

mutual
  theorem compileExpr_shape : (e : Expr) → ∀ (frame : Frame) (st : CState) (is : List Instr) (st' : CState),
      compileExpr frame e st = .ok (is, st') → FrameOK st.numArgs frame → Inv st → ExprShape frame st st' is 1
    | .sym s, frame, st, is, st', h, hf, hi => by
      simp only [compileExpr] at h
      cases hl : frame.lookup s with
      | some r =>
        simp only [hl] at h
        injection h with h; injection h with h1 h2; subst h1; subst h2
        have := hf _ (lookup_mem hl)
        exact ⟨hi, Nat.le_refl _, by simp [noRet], by intro d; simp [depth], by simp [regOK, this]⟩
      | none =>
        simp only [hl] at h
        cases hb : Builtin.ofName s with
        | none => simp [hb] at h
        | some b =>
          simp only [hb] at h
          injection h with h; injection h with h1 h2; subst h1; subst h2
          exact ⟨hi, Nat.le_refl _, by simp [noRet], by intro d; simp [depth], by simp [regOK]⟩
    | .lit l, frame, st, is, st', h, hf, hi => by
      simp only [compileExpr] at h
      injection h with h; injection h with h1 h2; subst h1; subst h2
      exact ⟨hi, Nat.le_refl _, by simp [noRet], by intro d; simp [depth], by simp [regOK]⟩
    | .lam ps b, frame, st, is, st', h, hf, hi => by
      simp only [compileExpr] at h
      cases hl : compileLambda frame ps b st with
      | error e => simp [hl] at h
      | ok r =>
        obtain ⟨t, st2⟩ := r
        simp only [hl] at h
        injection h with h; injection h with h1 h2; subst h1; subst h2
        obtain ⟨h1, h2⟩ := compileLambda_ok hl hf hi
        exact ⟨h1, h2, by simp [noRet], by intro d; simp [depth], by simp [regOK]⟩
    | .call f args p, frame, st, is, st', h, hf, hi => by
      simp only [compileExpr] at h
      cases ha : compileArgs frame args st with
      | error e => simp [ha] at h
      | ok r =>
        obtain ⟨isa, st1⟩ := r
        simp only [ha] at h
        have sa := compileArgs_shape args frame st isa st1 ha hf hi
        have hf1 : FrameOK st1.numArgs frame := FrameOK_mono sa.mono hf
        cases f with
        | sym s =>
          simp only at h
          cases hb : Builtin.ofName s with
          | none => simp [hb] at h
          | some b =>
            simp only [hb] at h
            injection h with h; injection h with h1 h2; subst h1; subst h2
            refine ⟨sa.inv, sa.mono, by simp [all_append, sa.noret, noRet], ?_, by simp [all_append, sa.regs, regOK]⟩
            intro d
            rw [depth_append _ _ _ sa.noret, sa.depth]
            simp [depth]
        | lit l => simp at h
        | lam ps b =>
          simp only at h
          cases hl : compileLambda frame ps b st1 with
          | error e => simp [hl] at h
          | ok r =>
            obtain ⟨t, st2⟩ := r
            simp only [hl] at h
            injection h with h; injection h with h1 h2; subst h1; subst h2
            obtain ⟨h1, h2⟩ := compileLambda_ok hl hf1 sa.inv
            refine ⟨h1, Nat.le_trans sa.mono h2, by simp [all_append, sa.noret, noRet], ?_,
              by simp [all_append, regOK_mono h2 _ sa.regs, regOK]⟩
            intro d
            rw [depth_append _ _ _ sa.noret, sa.depth]
            simp [depth]
        | call g gargs q =>
          simp only at h
          cases hc : compileExpr frame (.call g gargs q) st1 with
          | error e => simp [hc] at h
          | ok r =>
            obtain ⟨isf, st2⟩ := r
            simp only [hc] at h
            injection h with h; injection h with h1 h2; subst h1; subst h2
            have sf := compileExpr_shape (.call g gargs q) frame st1 isf st2 hc hf1 sa.inv
            refine ⟨sf.inv, Nat.le_trans sa.mono sf.mono,
              by simp [all_append, sa.noret, sf.noret, noRet], ?_,
              by simp [all_append, regOK_mono sf.mono _ sa.regs, sf.regs, regOK]⟩
            intro d
            rw [List.append_assoc, depth_append _ _ _ sa.noret, sa.depth]
            simp only [Option.bind_some]
            rw [depth_append _ _ _ sf.noret, sf.depth]
            simp only [Option.bind_some, depth]
            have : d + args.length + 1 ≥ args.length + 1 := by omega
            simp only [this, if_true]
            congr 1; omega
  theorem compileArgs_shape : (as : List Expr) → ∀ (frame : Frame) (st : CState) (is : List Instr) (st' : CState),
      compileArgs frame as st = .ok (is, st') → FrameOK st.numArgs frame → Inv st →
      ExprShape frame st st' is as.length
    | [], frame, st, is, st', h, hf, hi => by
      simp only [compileArgs] at h
      injection h with h; injection h with h1 h2; subst h1; subst h2
      exact ⟨hi, Nat.le_refl _, rfl, by intro d; simp [depth], rfl⟩
    | a :: as, frame, st, is, st', h, hf, hi => by
      simp only [compileArgs] at h
      cases ha : compileExpr frame a st with
      | error e => simp [ha] at h
      | ok r =>
        obtain ⟨isa, st1⟩ := r
        simp only [ha] at h
        have sa := compileExpr_shape a frame st isa st1 ha hf hi
        cases hs : compileArgs frame as st1 with
        | error e => simp [hs] at h
        | ok r =>
          obtain ⟨iss, st2⟩ := r
          simp only [hs] at h
          injection h with h; injection h with h1 h2; subst h1; subst h2
          have ss := compileArgs_shape as frame st1 iss st2 hs (FrameOK_mono sa.mono hf) sa.inv
          refine ⟨ss.inv, Nat.le_trans sa.mono ss.mono, by simp [all_append, sa.noret, ss.noret], ?_,
            by simp [all_append, regOK_mono ss.mono _ sa.regs, ss.regs]⟩
          intro d
          rw [depth_append _ _ _ sa.noret, sa.depth]
          simp only [Option.bind_some, ss.depth, List.length_cons]
          congr 1; omega
end


theorem depth_stores (js : List Instr) : ∀ (rs : List Nat),
    depth (rs.map Instr.store ++ js) (rs.length + 1) = depth js 1
  | [] => by simp
  | r :: rs => by
    simp only [List.map_cons, List.cons_append, depth, List.length_cons]
    have : rs.length + 1 + 1 ≥ 2 := by omega
    simp only [this, if_true]
    exact depth_stores js rs

/-- a lambda target: entered with its `k` arguments and the call frame on the stack, it leaves exactly
the result; every register it names exists -/
def LambdaSegOK (s : Segment) : Prop :=
  depth s.2 (s.1 + 1) = some 1 ∧ s.2.all (regOK maxArgs) = true

theorem compileQueue_shape : ∀ (fuel : Nat) (st : CState) (segs : List Segment),
    compileQueue fuel st = .ok segs → Inv st → ∀ s ∈ segs, LambdaSegOK s
  | 0, st, segs, h, _ => by
    simp only [compileQueue] at h
    split at h
    · injection h with h; subst h; simp
    · cases h
  | fuel + 1, st, segs, h, hi => by
    simp only [compileQueue] at h
    cases hq : st.queue with
    | nil => simp only [hq] at h; injection h with h; subst h; simp
    | cons t rest =>
      simp only [hq] at h
      have ht : TargetOK st.numArgs t := hi.2 t (by simp [hq])
      have hi0 : Inv { st with queue := rest } :=
        ⟨hi.1, fun t' ht' => hi.2 t' (by simp [hq, ht'])⟩
      cases hc : compileExpr t.frame t.body { st with queue := rest } with
      | error e => simp [hc] at h
      | ok r =>
        obtain ⟨is, st'⟩ := r
        simp only [hc] at h
        have sb := compileExpr_shape t.body t.frame { st with queue := rest } is st' hc ht.1 hi0
        cases hr : compileQueue fuel st' with
        | error e => simp [hr] at h
        | ok segs' =>
          simp only [hr] at h
          injection h with h; subst h
          intro s hs
          simp only [List.mem_cons] at hs
          rcases hs with rfl | hs
          · constructor
            · simp only
              have := depth_stores (is ++ [Instr.discard, Instr.ret]) t.own.reverse
              simp only [List.length_reverse] at this
              rw [List.append_assoc, this, depth_append _ _ _ sb.noret, sb.depth]
              simp [depth]
            · simp only [List.all_append, Bool.and_eq_true]
              refine ⟨⟨?_, regOK_mono sb.inv.1 _ sb.regs⟩, by simp [regOK]⟩
              simp only [List.all_eq_true, List.mem_map, List.mem_reverse]
              rintro i ⟨r, hr', rfl⟩
              have : r < maxArgs := Nat.lt_of_lt_of_le (ht.2 r hr') hi.1
              simp [regOK, this]
          · exact compileQueue_shape fuel st' segs' hr sb.inv s hs

end B6.Lemmas.VMShape
