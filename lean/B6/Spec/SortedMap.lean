/-!
# Sorted association list — the reference "set in sorted order" of C07

Keys are naturals, each key at most once, strictly increasing.  `insert` replaces the payload of an
existing key (as `treeList.Insert` does), `erase` removes a key, `lookup` finds one.  A cursor over
such a list is described by the last key it returned: `succ` is the least entry above that key,
`lowerBound` the least entry at or above a target.
-/
namespace B6.Spec.SortedMap

variable {α : Type}

abbrev SMap (α : Type) := List (Nat × α)

def keys (m : SMap α) : List Nat := m.map (·.1)

/-- strictly increasing keys -/
def Sorted (m : SMap α) : Prop := (keys m).Pairwise (· < ·)

instance (m : SMap α) : Decidable (Sorted m) := by unfold Sorted; infer_instance

def insert : SMap α → Nat → α → SMap α
  | [], k, p => [(k, p)]
  | (a, ap) :: rest, k, p =>
    if a < k then (a, ap) :: insert rest k p
    else if a = k then (k, p) :: rest
    else (k, p) :: (a, ap) :: rest

def erase : SMap α → Nat → SMap α
  | [], _ => []
  | (a, ap) :: rest, k => if a = k then rest else (a, ap) :: erase rest k

def lookup (m : SMap α) (k : Nat) : Option α := (m.find? (fun e => e.1 == k)).map (·.2)

/-- least entry with key ≥ `k` -/
def lowerBound (m : SMap α) (k : Nat) : Option (Nat × α) := m.find? (fun e => decide (k ≤ e.1))

/-- least entry with key > `c`; `none` as cursor = before the beginning -/
def succ (m : SMap α) : Option Nat → Option (Nat × α)
  | none => m.head?
  | some c => m.find? (fun e => decide (c < e.1))

end B6.Spec.SortedMap
