import B6.Model.RefIndex
/-!
# Specification of reference queries — C15

`ReachPlus fs id s`: feature `s` of the CURRENT feature set `fs` references `id` directly or through
a chain of current features (the chain `findReferences` follows).  `referrers` computes that set by
naive iteration to a fixed point and returns it only once it has *checked* that the set is closed,
so its answer is exact whenever it answers (`referrers_spec`); it shares no code with the model.
-/
namespace B6.Spec.Referrers
open B6.Model.RefIndex

/-- `s` is a current feature that lists `t` among its references -/
def Refers (fs : List Feature) (t s : Id) : Prop := ∃ f ∈ fs, f.id = s ∧ t ∈ f.refs

inductive ReachPlus (fs : List Feature) (id : Id) : Id → Prop where
  | direct {s} : Refers fs id s → ReachPlus fs id s
  | step {t s} : ReachPlus fs id t → Refers fs t s → ReachPlus fs id s

/-- IDs of the features that reference `id` or a member of `S` -/
def direct (fs : List Feature) (id : Id) (S : List Id) : List Id :=
  (fs.filter fun f => f.refs.any fun t => decide (t = id) || decide (t ∈ S)).map (·.id)

def closure (fs : List Feature) (id : Id) : Nat → List Id → Option (List Id)
  | 0, _ => none
  | k + 1, S =>
    let new := (direct fs id S).filter (fun s => decide (s ∉ S))
    if new.isEmpty then some S else closure fs id k (S ++ new)

/-- the referrers of `id` in `fs` (`none` only if `|fs| + 1` rounds were not enough — never observed) -/
def referrers (fs : List Feature) (id : Id) : Option (List Id) := closure fs id (fs.length + 2) []

theorem closure_spec (fs : List Feature) (id : Id) :
    ∀ (k : Nat) (S A : List Id), (∀ s ∈ S, ReachPlus fs id s) → closure fs id k S = some A →
      ∀ s, s ∈ A ↔ ReachPlus fs id s := by
  intro k
  induction k with
  | zero => intro S A _ h; simp [closure] at h
  | succ k ih =>
    intro S A hS h
    simp only [closure] at h
    split at h
    · -- closed: nothing new
      rename_i hnew
      injection h with h; subst h
      have hclosed : ∀ x, x ∈ direct fs id S → x ∈ S := by
        intro x hx
        have : ¬ x ∈ (direct fs id S).filter (fun s => decide (s ∉ S)) := by
          rw [List.isEmpty_iff] at hnew; rw [hnew]; simp
        simpa [hx] using this
      intro s
      constructor
      · exact hS s
      · intro hr
        induction hr with
        | direct hd =>
          obtain ⟨f, hf, hid, hmem⟩ := hd
          apply hclosed
          simp only [direct, List.mem_map, List.mem_filter]
          exact ⟨f, ⟨hf, List.any_eq_true.mpr ⟨id, hmem, by simp⟩⟩, hid⟩
        | @step t s' _ hd iht =>
          obtain ⟨f, hf, hid, hmem⟩ := hd
          apply hclosed
          simp only [direct, List.mem_map, List.mem_filter]
          exact ⟨f, ⟨hf, List.any_eq_true.mpr ⟨t, hmem, by simp [iht]⟩⟩, hid⟩
    · apply ih _ _ _ h
      intro s hs
      rcases List.mem_append.mp hs with hs | hs
      · exact hS s hs
      · have hs := (List.mem_filter.mp hs).1
        simp only [direct, List.mem_map, List.mem_filter, List.any_eq_true] at hs
        obtain ⟨f, ⟨hf, t, ht, htt⟩, hid⟩ := hs
        simp only [Bool.or_eq_true, decide_eq_true_eq] at htt
        rcases htt with htt | htt
        · subst htt; exact .direct ⟨f, hf, hid, ht⟩
        · exact .step (hS t htt) ⟨f, hf, hid, ht⟩

/-- whenever `referrers` answers, the answer is exactly the set of (transitive) referrers -/
theorem referrers_spec (fs : List Feature) (id : Id) (A : List Id) (h : referrers fs id = some A) :
    ∀ s, s ∈ A ↔ ReachPlus fs id s :=
  closure_spec fs id _ [] A (by simp) h

end B6.Spec.Referrers
