/-!
# Spec cursor over a strictly increasing list, iterator interface, and the `Refines` simulation (C06, shared)

(Owner: the C06 builder — shared layer L4.  The C07 iterator-clause predicate that was briefly written to
this path is kept verbatim in `B6/Spec/IterClauses.lean`; please do not overwrite this file.)

`Cursor` is a strictly increasing list with a position, kept as a zipper: `before` are the elements
already consumed (the last one is the *current* element), `rest` the elements still ahead.
`xs = before ++ rest`, `pos = before.length` (0 = not started).

* `next`      moves to the following element (`false` at the end);
* `advance k` moves to the first element `≥ k` **at or after** the current one — it never moves
              backwards, and stays put when the current element is already `≥ k`.

Histories end at the first `false`: nothing is specified about calls made after it.

`IterOps σ` is the interface of an implementation iterator (`search.Iterator` in
/repo/src/diagonal.works/b6/search/search.go): a state type with `next`, `advance`, `value`
(`none` where Go would panic or return nil) and `estimate` (`EstimateLength`).  `Refines ops s xs` says that
the implementation started in state `s` answers every finite sequence of `next`/`advance k` calls exactly
like the spec cursor over `xs` (same `Bool`, same value on `true`), up to the first `false`.
-/
namespace B6.Spec.Cursor

/-- strictly increasing -/
def StrictSorted (xs : List Nat) : Prop := xs.Pairwise (· < ·)

instance (xs : List Nat) : Decidable (StrictSorted xs) := by unfold StrictSorted; infer_instance

structure Cursor where
  before : List Nat
  rest : List Nat
  deriving Repr, DecidableEq

namespace Cursor

def xs (c : Cursor) : List Nat := c.before ++ c.rest
def pos (c : Cursor) : Nat := c.before.length
/-- the current element (`none` before the first successful call) -/
def cur (c : Cursor) : Option Nat := c.before.getLast?
def WF (c : Cursor) : Prop := StrictSorted c.xs

def next (c : Cursor) : Bool × Cursor :=
  match c.rest with
  | [] => (false, c)
  | x :: r => (true, ⟨c.before ++ [x], r⟩)

/-- skip the elements `< k` of `rest`, land on the first one `≥ k` -/
def seek (k : Nat) (c : Cursor) : Bool × Cursor :=
  match c.rest.dropWhile (· < k) with
  | [] => (false, ⟨c.before ++ c.rest, []⟩)
  | x :: r => (true, ⟨c.before ++ c.rest.takeWhile (· < k) ++ [x], r⟩)

def advance (k : Nat) (c : Cursor) : Bool × Cursor :=
  match c.cur with
  | some v => if k ≤ v then (true, c) else c.seek k
  | none => c.seek k

/-- the least key `next` is allowed to land on -/
def lo (c : Cursor) : Nat := match c.cur with | none => 0 | some v => v + 1

end Cursor

def start (xs : List Nat) : Cursor := ⟨[], xs⟩

@[simp] theorem start_xs (xs : List Nat) : (start xs).xs = xs := rfl
@[simp] theorem start_cur (xs : List Nat) : (start xs).cur = none := rfl

/-! ## Iterator interface and refinement -/

inductive Err where
  | panic   -- the Go code panics (index out of range, nil dereference)
  | fuel    -- a loop of the Go code did not finish within the model's bound
  deriving Repr, DecidableEq

abbrev Res (σ : Type) := Except Err (Bool × σ)

structure IterOps (σ : Type) where
  next : σ → Res σ
  advance : Nat → σ → Res σ
  value : σ → Option Nat
  estimate : σ → Nat
  /-- the keys `advance` may be called with.  Everything for the in-memory indices; for a compact posting list
  the keys whose namespace is in the file's namespace table (`nt.Encode` panics on any other). -/
  dom : Nat → Prop := fun _ => True

/-- `R` is a simulation between implementation states and spec cursors. -/
structure Simulation {σ : Type} (ops : IterOps σ) (R : σ → Cursor → Prop) : Prop where
  wf : ∀ s c, R s c → c.WF
  value : ∀ s c, R s c → c.cur.isSome → ops.value s = c.cur
  next : ∀ s c, R s c → ∃ s', ops.next s = .ok (c.next.1, s') ∧ (c.next.1 = true → R s' c.next.2)
  advance : ∀ k s c, R s c → ops.dom k →
    ∃ s', ops.advance k s = .ok ((c.advance k).1, s') ∧ ((c.advance k).1 = true → R s' (c.advance k).2)

/-- the implementation in state `s` behaves like the spec cursor `c` from here on -/
def RefinesAt {σ : Type} (ops : IterOps σ) (s : σ) (c : Cursor) : Prop :=
  ∃ R, Simulation ops R ∧ R s c

/-- the implementation started in `s` behaves like the spec cursor over `xs` -/
def Refines {σ : Type} (ops : IterOps σ) (s : σ) (xs : List Nat) : Prop :=
  RefinesAt ops s (start xs)

/-! ## A call sequence and its transcript -/

inductive Call where
  | next
  | advance (k : Nat)
  deriving Repr, DecidableEq

/-- transcript entry: the `Bool`, and the value when `true` -/
abbrev Obs := Bool × Option Nat

/-- spec transcript; stops after the first `false` -/
def runSpec : Cursor → List Call → List Obs
  | _, [] => []
  | c, call :: calls =>
    let r := match call with | .next => c.next | .advance k => c.advance k
    if r.1 then (true, r.2.cur) :: runSpec r.2 calls else [(false, none)]

/-- implementation transcript; stops after the first `false`; `none` if the implementation errs -/
def runImpl {σ : Type} (ops : IterOps σ) : σ → List Call → Option (List Obs)
  | _, [] => some []
  | s, call :: calls =>
    match (match call with | .next => ops.next s | .advance k => ops.advance k s) with
    | .ok (true, s') => (runImpl ops s' calls).map ((true, ops.value s') :: ·)
    | .ok (false, _) => some [(false, none)]
    | .error _ => none

/-! ## Facts about the spec cursor -/

theorem strictSorted_append {a b : List Nat} :
    StrictSorted (a ++ b) ↔ StrictSorted a ∧ StrictSorted b ∧ ∀ x ∈ a, ∀ y ∈ b, x < y := by
  unfold StrictSorted; exact List.pairwise_append

theorem strictSorted_cons {a : Nat} {l : List Nat} :
    StrictSorted (a :: l) ↔ (∀ y ∈ l, a < y) ∧ StrictSorted l := by
  unfold StrictSorted; exact List.pairwise_cons

theorem StrictSorted.nodup {l : List Nat} (h : StrictSorted l) : l.Nodup := by
  unfold StrictSorted at h
  exact h.imp (fun hab => Nat.ne_of_lt hab)

/-- two strictly increasing lists with the same elements are equal -/
theorem StrictSorted.ext : ∀ {a b : List Nat}, StrictSorted a → StrictSorted b →
    (∀ x, x ∈ a ↔ x ∈ b) → a = b
  | [], [], _, _, _ => rfl
  | [], y :: _, _, _, h => by have := (h y).2 (by simp); simp at this
  | x :: _, [], _, _, h => by have := (h x).1 (by simp); simp at this
  | x :: a, y :: b, ha, hb, h => by
    rw [strictSorted_cons] at ha hb
    have hxy : x = y := by
      have h1 := (h x).1 (by simp)
      have h2 := (h y).2 (by simp)
      simp only [List.mem_cons] at h1 h2
      rcases h1 with h1 | h1
      · exact h1
      · rcases h2 with h2 | h2
        · exact h2.symm
        · have := ha.1 y h2; have := hb.1 x h1; omega
    subst hxy
    have : a = b := by
      apply StrictSorted.ext ha.2 hb.2
      intro z
      have hz := h z
      simp only [List.mem_cons] at hz
      constructor
      · intro hza
        have := ha.1 z hza
        rcases hz.1 (Or.inr hza) with h' | h'
        · omega
        · exact h'
      · intro hzb
        have := hb.1 z hzb
        rcases hz.2 (Or.inr hzb) with h' | h'
        · omega
        · exact h'
    rw [this]

theorem mem_takeWhile_imp {p : Nat → Bool} {l : List Nat} {x : Nat} (h : x ∈ l.takeWhile p) :
    p x = true := by
  induction l with
  | nil => simp at h
  | cons a l ih =>
    rw [List.takeWhile_cons] at h
    split at h
    · rcases List.mem_cons.1 h with h1 | h1
      · subst h1; assumption
      · exact ih h1
    · simp at h

namespace Cursor

theorem cur_mem {c : Cursor} {v : Nat} (h : c.cur = some v) : v ∈ c.xs := by
  unfold cur at h; unfold xs
  exact List.mem_append_left _ (List.mem_of_getLast? h)

theorem before_eq_of_cur {c : Cursor} {v : Nat} (h : c.cur = some v) :
    c.before = c.before.dropLast ++ [v] := by
  unfold cur at h
  have hne : c.before ≠ [] := by intro h0; rw [h0] at h; simp at h
  have := List.dropLast_concat_getLast hne
  rw [List.getLast?_eq_some_getLast hne] at h
  simp only [Option.some.injEq] at h
  rw [h] at this; exact this.symm

theorem before_nil_of_cur {c : Cursor} (h : c.cur = none) : c.before = [] := by
  unfold cur at h; simpa using h

/-- everything consumed so far is `≤` the current element -/
theorem before_le_cur {c : Cursor} (hw : c.WF) {v : Nat} (h : c.cur = some v) :
    ∀ y ∈ c.before, y ≤ v := by
  intro y hy
  have hb := before_eq_of_cur h
  unfold WF xs at hw
  rw [strictSorted_append] at hw
  have hs := hw.1
  rw [hb, strictSorted_append] at hs
  rw [hb] at hy
  rcases List.mem_append.1 hy with h1 | h1
  · exact Nat.le_of_lt (hs.2.2 y h1 v (by simp))
  · simp at h1; omega

/-- everything ahead is `>` the current element -/
theorem cur_lt_rest {c : Cursor} (hw : c.WF) {v : Nat} (h : c.cur = some v) :
    ∀ y ∈ c.rest, v < y := by
  intro y hy
  unfold WF xs at hw
  rw [strictSorted_append] at hw
  exact hw.2.2 v (List.mem_of_getLast? h) y hy

theorem mem_xs {c : Cursor} {y : Nat} : y ∈ c.xs ↔ y ∈ c.before ∨ y ∈ c.rest := by
  unfold xs; exact List.mem_append

/-- an element of the list that is `≥ lo` is still ahead -/
theorem mem_rest_of_lo_le {c : Cursor} (hw : c.WF) {y : Nat} (hy : y ∈ c.xs) (hlo : c.lo ≤ y) :
    y ∈ c.rest := by
  rcases mem_xs.1 hy with h | h
  · cases hc : c.cur with
    | none => rw [before_nil_of_cur hc] at h; simp at h
    | some v =>
      simp only [lo, hc] at hlo
      have := before_le_cur hw hc y h
      omega
  · exact h

theorem lo_le_of_mem_rest {c : Cursor} (hw : c.WF) {y : Nat} (hy : y ∈ c.rest) : c.lo ≤ y := by
  unfold lo
  cases hc : c.cur with
  | none => simp
  | some v => have := cur_lt_rest hw hc y hy; simp only; omega

/-- `seek k` on a well-formed cursor: lands on the least remaining element `≥ k` -/
theorem seek_spec {c : Cursor} (hw : c.WF) (k : Nat) :
    ((c.seek k).1 = true →
      (c.seek k).2.WF ∧ (c.seek k).2.xs = c.xs ∧ c.pos < (c.seek k).2.pos ∧
      ∃ x, (c.seek k).2.cur = some x ∧ x ∈ c.rest ∧ k ≤ x ∧ ∀ y ∈ c.rest, k ≤ y → x ≤ y) ∧
    ((c.seek k).1 = false → ∀ y ∈ c.rest, y < k) := by
  have hsplit := List.takeWhile_append_dropWhile (p := (· < k)) (l := c.rest)
  unfold seek
  cases hd : c.rest.dropWhile (· < k) with
  | nil =>
    refine ⟨fun h => absurd h (by simp), fun _ => ?_⟩
    intro y hy
    rw [hd, List.append_nil] at hsplit
    rw [← hsplit] at hy
    have := mem_takeWhile_imp hy
    simpa using this
  | cons x r =>
    refine ⟨fun _ => ?_, fun h => absurd h (by simp)⟩
    rw [hd] at hsplit
    have hxs : (⟨c.before ++ c.rest.takeWhile (· < k) ++ [x], r⟩ : Cursor).xs = c.xs := by
      unfold xs; simp only [List.append_assoc, List.singleton_append]; rw [hsplit]
    have hxk : k ≤ x := by
      have := List.head_dropWhile_not (p := (· < k)) (l := c.rest) (by rw [hd]; simp)
      simp [hd] at this
      omega
    have hxrest : x ∈ c.rest := by rw [← hsplit]; simp
    refine ⟨?_, hxs, ?_, x, ?_, hxrest, hxk, ?_⟩
    · unfold WF; rw [hxs]; exact hw
    · simp only [pos, List.length_append, List.length_cons, List.length_nil]; omega
    · simp [cur]
    · intro y hy hky
      rw [← hsplit] at hy
      rcases List.mem_append.1 hy with h1 | h1
      · have := mem_takeWhile_imp h1
        simp at this; omega
      · rcases List.mem_cons.1 h1 with h2 | h2
        · omega
        · unfold WF xs at hw
          rw [strictSorted_append] at hw
          have hr := hw.2.1
          rw [← hsplit, strictSorted_append] at hr
          have := (strictSorted_cons.1 hr.2.1).1 y h2
          omega

theorem next_eq_advance_lo {c : Cursor} (hw : c.WF) :
    c.next.1 = (c.advance c.lo).1 ∧
    (c.next.1 = true → c.next.2 = (c.advance c.lo).2) := by
  have hseek : c.next.1 = (c.seek c.lo).1 ∧ (c.next.1 = true → c.next.2 = (c.seek c.lo).2) := by
    unfold next seek
    cases hr : c.rest with
    | nil => simp
    | cons x r =>
      have hx : c.lo ≤ x := lo_le_of_mem_rest hw (by rw [hr]; simp)
      have : ¬ x < c.lo := by omega
      simp [this]
  unfold advance
  cases hc : c.cur with
  | none => simpa using hseek
  | some v =>
    have : ¬ c.lo ≤ v := by unfold lo; rw [hc]; simp
    simpa [this] using hseek

/-- Characterisation of `advance k` on a well-formed cursor.  On `true` the new current element is the
least element of the list that is `≥ k` and not before the old current element; on `false` every
element is `< k`. -/
theorem advance_spec {c : Cursor} (hw : c.WF) (k : Nat) :
    ((c.advance k).1 = true →
      (c.advance k).2.WF ∧ (c.advance k).2.xs = c.xs ∧ c.pos ≤ (c.advance k).2.pos ∧
      ∃ x, (c.advance k).2.cur = some x ∧ x ∈ c.xs ∧ k ≤ x ∧ (∀ v, c.cur = some v → v ≤ x) ∧
        ∀ y ∈ c.xs, k ≤ y → (∀ v, c.cur = some v → v ≤ y) → x ≤ y) ∧
    ((c.advance k).1 = false → ∀ y ∈ c.xs, y < k) := by
  have hs := seek_spec hw k
  unfold advance
  cases hc : c.cur with
  | none =>
    simp only
    have hb := before_nil_of_cur hc
    have hxs : c.xs = c.rest := by unfold xs; rw [hb]; simp
    constructor
    · intro ht
      obtain ⟨h1, h2, h3, x, h4, h5, h6, h7⟩ := hs.1 ht
      refine ⟨h1, h2, Nat.le_of_lt h3, x, h4, by rw [hxs]; exact h5, h6, by simp, ?_⟩
      intro y hy hky _
      rw [hxs] at hy
      exact h7 y hy hky
    · intro hf; rw [hxs]; exact hs.2 hf
  | some v =>
    simp only
    by_cases hkv : k ≤ v
    · rw [if_pos hkv]
      refine ⟨fun _ => ⟨hw, rfl, Nat.le_refl _, v, hc, cur_mem hc, hkv, ?_, ?_⟩, fun h => absurd h (by simp)⟩
      · intro v' hv'; simp at hv'; omega
      · intro y _ _ hvy; exact hvy v rfl
    · rw [if_neg hkv]
      constructor
      · intro ht
        obtain ⟨h1, h2, h3, x, h4, h5, h6, h7⟩ := hs.1 ht
        refine ⟨h1, h2, Nat.le_of_lt h3, x, h4, mem_xs.2 (Or.inr h5), h6, ?_, ?_⟩
        · intro v' hv'
          simp only [Option.some.injEq] at hv'
          have := cur_lt_rest hw hc x h5; omega
        · intro y hy hky _
          rcases mem_xs.1 hy with h | h
          · have := before_le_cur hw hc y h; omega
          · exact h7 y h hky
      · intro hf y hy
        rcases mem_xs.1 hy with h | h
        · have := before_le_cur hw hc y h; omega
        · exact hs.2 hf y h

/-- `advance k` when the cursor really has to move (`cur < k` or not started): strictly forward. -/
theorem advance_pos_lt {c : Cursor} (hw : c.WF) {k : Nat} (hk : ∀ v, c.cur = some v → v < k)
    (ht : (c.advance k).1 = true) : c.pos < (c.advance k).2.pos := by
  have hs := seek_spec hw k
  unfold advance at ht ⊢
  cases hc : c.cur with
  | none => rw [hc] at ht; simp only at ht ⊢; exact (hs.1 ht).2.2.1
  | some v =>
    have : ¬ k ≤ v := by have := hk v hc; omega
    rw [hc] at ht
    simp only [this, ↓reduceIte] at ht ⊢
    exact (hs.1 ht).2.2.1

/-- Characterisation of `next`: lands on the least element `≥ lo` (greater than the current one). -/
theorem next_spec {c : Cursor} (hw : c.WF) :
    (c.next.1 = true →
      c.next.2.WF ∧ c.next.2.xs = c.xs ∧ c.pos < c.next.2.pos ∧
      ∃ x, c.next.2.cur = some x ∧ x ∈ c.xs ∧ c.lo ≤ x ∧ ∀ y ∈ c.xs, c.lo ≤ y → x ≤ y) ∧
    (c.next.1 = false → ∀ y ∈ c.xs, y < c.lo) := by
  obtain ⟨hb, hs⟩ := next_eq_advance_lo hw
  have ha := advance_spec hw c.lo
  have hlo : ∀ v, c.cur = some v → v < c.lo := by intro v hv; unfold lo; rw [hv]; simp
  constructor
  · intro ht
    have ht' : (c.advance c.lo).1 = true := by rw [← hb]; exact ht
    obtain ⟨h1, h2, _, x, h4, h5, h6, _, h8⟩ := ha.1 ht'
    have hp := advance_pos_lt hw hlo ht'
    rw [hs ht]
    refine ⟨h1, h2, hp, x, h4, h5, h6, ?_⟩
    intro y hy hly
    apply h8 y hy hly
    intro v hv; have := hlo v hv; omega
  · intro hf
    exact ha.2 (by rw [← hb]; exact hf)

theorem pos_le_length (c : Cursor) : c.pos ≤ c.xs.length := by
  unfold pos xs; simp

end Cursor

/-! ## Consequences of refinement -/

section
variable {σ : Type} {ops : IterOps σ}

theorem RefinesAt.wf {s : σ} {c : Cursor} (h : RefinesAt ops s c) : c.WF := by
  obtain ⟨R, hR, hsc⟩ := h; exact hR.wf s c hsc

theorem RefinesAt.value {s : σ} {c : Cursor} (h : RefinesAt ops s c) (hc : c.cur.isSome) :
    ops.value s = c.cur := by
  obtain ⟨R, hR, hsc⟩ := h; exact hR.value s c hsc hc

theorem RefinesAt.next {s : σ} {c : Cursor} (h : RefinesAt ops s c) :
    ∃ s', ops.next s = .ok (c.next.1, s') ∧ (c.next.1 = true → RefinesAt ops s' c.next.2) := by
  obtain ⟨R, hR, hsc⟩ := h
  obtain ⟨s', h1, h2⟩ := hR.next s c hsc
  exact ⟨s', h1, fun ht => ⟨R, hR, h2 ht⟩⟩

theorem RefinesAt.advance {s : σ} {c : Cursor} (h : RefinesAt ops s c) (k : Nat) (hk : ops.dom k) :
    ∃ s', ops.advance k s = .ok ((c.advance k).1, s') ∧
      ((c.advance k).1 = true → RefinesAt ops s' (c.advance k).2) := by
  obtain ⟨R, hR, hsc⟩ := h
  obtain ⟨s', h1, h2⟩ := hR.advance k s c hsc hk
  exact ⟨s', h1, fun ht => ⟨R, hR, h2 ht⟩⟩

/-- `RefinesAt` is itself a simulation (the largest one). -/
theorem refinesAt_simulation : Simulation ops (RefinesAt ops) where
  wf _ _ h := h.wf
  value _ _ h hc := h.value hc
  next _ _ h := h.next
  advance k _ _ h hk := h.advance k hk

/-- The transcript of **every** finite call sequence (with `advance` keys in the domain) agrees with the spec
cursor's. -/
theorem RefinesAt.run {s : σ} {c : Cursor} (h : RefinesAt ops s c) (calls : List Call)
    (hdom : ∀ k, Call.advance k ∈ calls → ops.dom k) :
    runImpl ops s calls = some (runSpec c calls) := by
  induction calls generalizing s c with
  | nil => rfl
  | cons call calls ih =>
    have hdom' : ∀ k, Call.advance k ∈ calls → ops.dom k := fun k hk => hdom k (List.mem_cons_of_mem _ hk)
    cases call with
    | next =>
      obtain ⟨s', h1, h2⟩ := h.next
      simp only [runImpl, runSpec, h1]
      cases hb : c.next.1 with
      | false => simp
      | true =>
        have hr := h2 hb
        have hv : ops.value s' = c.next.2.cur := by
          apply hr.value
          obtain ⟨_, _, _, x, hx, _⟩ := (Cursor.next_spec h.wf).1 hb
          rw [hx]; rfl
        simp [ih hr hdom', hv]
    | advance k =>
      obtain ⟨s', h1, h2⟩ := h.advance k (hdom k (by simp))
      simp only [runImpl, runSpec, h1]
      cases hb : (c.advance k).1 with
      | false => simp
      | true =>
        have hr := h2 hb
        have hv : ops.value s' = (c.advance k).2.cur := by
          apply hr.value
          obtain ⟨_, _, _, x, hx, _⟩ := (Cursor.advance_spec h.wf k).1 hb
          rw [hx]; rfl
        simp [ih hr hdom', hv]

end

end B6.Spec.Cursor
