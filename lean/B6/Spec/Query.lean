import B6.Model.Expr
/-!
What a query matches, as far as `Simplify` is concerned: `Intersection` = all, `Union` = any
(`Intersection{}` matches everything, `Union{}` nothing — as `Matches` in b6/search.go), `Typed` =
the feature's type test and the inner query; `Keyed`, `Tagged` and every other query are leaves
decided by an oracle (the feature at hand).
-/
namespace B6.Spec
open B6.Model

mutual
  def denote (leaf : Query → Bool) (typeOK : String → Bool) : Query → Bool
    | .inter qs => denoteAll leaf typeOK qs
    | .union qs => denoteAny leaf typeOK qs
    | .typed t q => typeOK t && denote leaf typeOK q
    | .keyed k => leaf (.keyed k)
    | .tagged k v => leaf (.tagged k v)
    | .other t => leaf (.other t)
  def denoteAll (leaf : Query → Bool) (typeOK : String → Bool) : List Query → Bool
    | [] => true
    | q :: qs => denote leaf typeOK q && denoteAll leaf typeOK qs
  def denoteAny (leaf : Query → Bool) (typeOK : String → Bool) : List Query → Bool
    | [] => false
    | q :: qs => denote leaf typeOK q || denoteAny leaf typeOK qs
end

end B6.Spec
