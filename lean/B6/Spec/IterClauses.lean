/-!
# The iterator clauses of C07 as a predicate on a transcript

"An iterator that was open while values were inserted or deleted continues in order from where it
was, never repeats a value, never returns a value after it was deleted, and returns every value that
was present throughout."

One `Cur` per open iterator records what the *caller* has seen: the last key returned, the keys that
have been in the list ever since the iterator was opened (`owed`), and whether a call has already
returned false.  `clause` judges one more call (`Next`, or `Advance target`) given the keys in the
list at that moment; `none` = the call is consistent with the property.  The C07 driver evaluates
exactly this function on the implementation's answers, and `B6.Props.C07.trace_ok` proves that the
model never fails it.
-/
namespace B6.Spec.IterClauses

structure Cur where
  pos : Option Nat := none
  owed : List Nat := []
  dead : Bool := false
  deriving Repr, DecidableEq

def posLt (pos : Option Nat) (x : Nat) : Bool :=
  match pos with
  | none => true
  | some c => decide (c < x)

def posLe (pos : Option Nat) (x : Nat) : Bool :=
  match pos with
  | none => true
  | some c => decide (c ≤ x)

/-- `target` = the `Advance` key (`none` for `Next`); `ret` = the key under the iterator when the call
returned true, `none` when it returned false.  After a false return nothing more is demanded. -/
def clause (keys : List Nat) (c : Cur) (target : Option Nat) (ret : Option Nat) : Option String :=
  if c.dead then none else
  match target, ret with
  | none, some k =>
    if !posLt c.pos k then some "iter-order"                       -- continues in order, never repeats
    else if !keys.contains k then some "iter-deleted"              -- not after it was deleted
    else if c.owed.any (fun x => posLt c.pos x && decide (x < k)) then some "iter-skipped"
    else none
  | none, none =>
    if c.owed.any (fun x => posLt c.pos x) then some "iter-skipped" else none
  | some t, some k =>
    if !(posLe c.pos k && decide (t ≤ k)) then some "iter-order"
    else if !keys.contains k then some "iter-deleted"
    else if c.owed.any (fun x => posLt c.pos x && decide (t ≤ x) && decide (x < k)) then some "iter-skipped"
    else none
  | some t, none =>
    if c.owed.any (fun x => posLt c.pos x && decide (t ≤ x)) then some "iter-skipped" else none

def Cur.update (c : Cur) (ret : Option Nat) : Cur :=
  match ret with
  | some k => { c with pos := some k }
  | none => { c with dead := true }

/-- a key was removed from the list -/
def Cur.onDelete (c : Cur) (k : Nat) : Cur := { c with owed := c.owed.filter (· != k) }

/-- tracker of a freshly opened iterator -/
def Cur.begin (keys : List Nat) : Cur := { owed := keys }

end B6.Spec.IterClauses
