import B6.Model.Mutable
/-!
# Specification of a world as "a simple per-feature map" (C12, C13, C14)

`World` = feature id ⇀ (tag key ⇀ value).  Every read the properties speak about is a function of it:
lookup / existence (`find`), tags (`tagOf`), tag search (`matching`: the ids whose tags produce the
token, in id order) and enumeration (`ids`).  Only the element types (`Id`, `Key`, `Val`, `Tag`) and
the definition of which token a tag produces (`tokenForTag`, i.e. b6.TokenForTag) are shared with the
model.
-/
namespace B6.Spec.World
open B6.Model.Mutable

abbrev TagMap := List (Key × Val)
abbrev World := List (Id × TagMap)

def find (w : World) (id : Id) : Option TagMap := AMap.get w id

/-- the value of tag `k` of feature `id`: `none` = no such feature, `some none` = no such tag -/
def tagOf (w : World) (id : Id) (k : Key) : Option (Option Val) :=
  (find w id).map (fun m => AMap.get m k)

/-- a feature is added or replaced: its tags are exactly the given ones (read like `Tags.Get`: the
first tag with the key) -/
def addFeature (w : World) (id : Id) (tags : List Tag) : World := AMap.set w id tags

/-- a tag is set on an existing feature; nothing happens for an unknown id -/
def addTag (w : World) (id : Id) (t : Tag) : World :=
  match find w id with
  | some m => AMap.set w id (AMap.set m t.1 t.2)
  | none => w

def removeTag (w : World) (id : Id) (k : Key) : World :=
  match find w id with
  | some m => AMap.set w id (AMap.erase m k)
  | none => w

/-- whether feature `id` carries a tag that produces the token -/
def produces (w : World) (id : Id) (t : Token) : Bool :=
  match find w id with
  | some m => m.any (fun e => tokenForTag e == some t)
  | none => false

def ids (w : World) : List Id := AMap.keys w

/-- the answer of a single-token tag search: matching ids in increasing order -/
def matching (w : World) (t : Token) : List Id :=
  ((ids w).filter (fun id => produces w id t)).foldl (fun acc id => insertSorted id acc) []

end B6.Spec.World
