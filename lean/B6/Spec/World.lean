import B6.Model.Mutable
/-!
# Specification of a world as "a simple per-feature map" (C12, C13, C14)

`World` = feature id ⇀ (tag key ⇀ value).  Every read the properties speak about is a function of it:
lookup / existence (`find`), tags (`tagOf`), tag search (`matching`: the ids whose tags produce the
token, in id order) and enumeration (`ids`).  Only the element types (`Id`, `Key`, `Val`, `Tag`) and
the definition of which token a tag produces (`tokenForTag`, i.e. b6.TokenForTag) are shared with the
model.
-/
namespace B6.Spec.World
open B6.Model.Mutable

abbrev TagMap := List (Key × Val)
abbrev World := List (Id × TagMap)

def find (w : World) (id : Id) : Option TagMap := AMap.get w id

/-- the value of tag `k` of feature `id`: `none` = no such feature, `some none` = no such tag -/
def tagOf (w : World) (id : Id) (k : Key) : Option (Option Val) :=
  (find w id).map (fun m => AMap.get m k)

/-- a feature is added or replaced: its tags are exactly the given ones (read like `Tags.Get`: the
first tag with the key) -/
def addFeature (w : World) (id : Id) (tags : List Tag) : World := AMap.set w id tags

/-- a tag is set on an existing feature; nothing happens for an unknown id -/
def addTag (w : World) (id : Id) (t : Tag) : World :=
  match find w id with
  | some m => AMap.set w id (AMap.set m t.1 t.2)
  | none => w

def removeTag (w : World) (id : Id) (k : Key) : World :=
  match find w id with
  | some m => AMap.set w id (AMap.erase m k)
  | none => w

/-- whether feature `id` carries a tag that produces the token -/
def produces (w : World) (id : Id) (t : Token) : Bool :=
  match find w id with
  | some m => m.any (fun e => tokenForTag e == some t)
  | none => false

def ids (w : World) : List Id := AMap.keys w

/-- the answer of a single-token tag search: matching ids in increasing order -/
def matching (w : World) (t : Token) : List Id :=
  ((ids w).filter (fun id => produces w id t)).foldl (fun acc id => insertSorted id acc) []

/-! ### operations as the mutable world offers them -/

def applyChange (w : World) : Change → World
  | .addFeatures fs => fs.foldl (fun w f => addFeature w f.id f.tags) w
  | .addTags ts => ts.foldl (fun w e => addTag w e.1 e.2) w
  | .removeTags ts => ts.foldl (fun w e => removeTag w e.1 e.2) w

def applyOp (w : World) : Op → World
  | .addFeature f => addFeature w f.id f.tags
  | .addTag id t => addTag w id t
  | .removeTag id k => removeTag w id k
  | .merged cs => cs.foldl applyChange w

/-- the map after an operation which the world answered with `r`: applied when accepted, untouched
when rejected -/
def step (w : World) (op : Op) (r : Option Err) : World :=
  match r with
  | none => applyOp w op
  | some _ => w

/-- the map after a history, given what every call answered -/
def run (w : World) : List Op → List (Option Err) → World
  | op :: ops, r :: rs => run (step w op r) ops rs
  | _, _ => w

/-- the ids an operation names -/
def changeIds : Change → List Id
  | .addFeatures fs => fs.map (·.id)
  | .addTags ts => ts.map (·.1)
  | .removeTags ts => ts.map (·.1)

def opIds : Op → List Id
  | .addFeature f => [f.id]
  | .addTag id _ => [id]
  | .removeTag id _ => [id]
  | .merged cs => cs.flatMap changeIds

end B6.Spec.World
