import B6.Spec.Cursor
/-!
# Search queries over a token index and the sorted set each one denotes (C06, shared)

`Index`: posting lists by token (tokens in increasing order, each list strictly increasing).
`SQuery`: the query trees of /repo/src/diagonal.works/b6/search (`Empty`, `All`, `Union`, `Intersection`,
`KeyRange`, `TokenPrefix`).  `SQuery.denote ix q` is the strictly increasing list of values the query
stands for — plain list functions (`filter`, sorted insertion), no iterators.
-/
namespace B6.Spec.SearchQuery
open B6.Spec.Cursor

abbrev Token := List Char

/-- which index implementation the posting lists come from (only `EstimateLength` differs) -/
inductive LeafKind where
  | array | tree | compact
  deriving Repr, DecidableEq

structure Index where
  kind : LeafKind
  lists : List (Token × List Nat)
  /-- compact only: the file's namespace table (`NamespaceTable.FromEncoded`) -/
  names : List String := []
  deriving Repr

/-- The keys `Advance` may be called with.  A key is `TypeAndNamespace * 2^64 + value`,
`TypeAndNamespace = type * 8192 + namespace index`; a compact iterator panics (`nt.Encode`) on a key whose namespace is
not in the file's table. -/
def Index.dom (ix : Index) (k : Nat) : Prop :=
  match ix.kind with
  | .compact => (k / 2 ^ 64) / 8192 < 8 ∧ (k / 2 ^ 64) % 8192 < ix.names.length
  | _ => True

/-- tokens strictly increasing, posting lists strictly increasing -/
def Index.Valid (ix : Index) : Prop :=
  (ix.lists.map (·.1)).Pairwise (· < ·) ∧ ∀ e ∈ ix.lists, StrictSorted e.2

def Index.lookup (ix : Index) (t : Token) : Option (List Nat) :=
  (ix.lists.find? (fun e => e.1 == t)).map (·.2)

/-- the posting list of a token (empty when the token is not in the index) -/
def Index.get (ix : Index) (t : Token) : List Nat :=
  match ix.lookup t with
  | some xs => xs
  | none => []

/-- total number of postings -/
def Index.total (ix : Index) : Nat := ((ix.lists.map (·.2)).flatten).length

inductive SQuery where
  | empty
  | all (t : Token)
  | union (qs : List SQuery)
  | inter (qs : List SQuery)
  | keyRange (b e : Nat) (q : SQuery)
  | tokenPrefix (p : Token)
  deriving Repr

/-- insert into a strictly increasing list, dropping duplicates -/
def insertSorted (x : Nat) : List Nat → List Nat
  | [] => [x]
  | y :: l => if x < y then x :: y :: l else if x = y then y :: l else y :: insertSorted x l

/-- the strictly increasing list with the same elements -/
def sortDedup (l : List Nat) : List Nat := l.foldr insertSorted []

/-- the elements of `xs` inside `[b, e)` -/
def rangeList (b e : Nat) (xs : List Nat) : List Nat := xs.filter (fun x => decide (b ≤ x) && decide (x < e))

/-- the elements of the first list that occur in all the others (`[]` for no list at all: the Go code
panics on an intersection without children, see `SQuery.WF`) -/
def interLists : List (List Nat) → List Nat
  | [] => []
  | l :: ls => l.filter (fun x => ls.all (fun l' => l'.contains x))

mutual
def SQuery.denote (ix : Index) : SQuery → List Nat
  | .empty => []
  | .all t => ix.get t
  | .union qs => sortDedup (SQuery.denoteList ix qs).flatten
  | .inter qs => interLists (SQuery.denoteList ix qs)
  | .keyRange b e q => rangeList b e (q.denote ix)
  | .tokenPrefix p => sortDedup ((ix.lists.filter (fun e => p.isPrefixOf e.1)).map (·.2)).flatten
def SQuery.denoteList (ix : Index) : List SQuery → List (List Nat)
  | [] => []
  | q :: qs => q.denote ix :: SQuery.denoteList ix qs
end

mutual
/-- every intersection has at least one child -/
def SQuery.WF : SQuery → Prop
  | .empty => True
  | .all _ => True
  | .union qs => SQuery.WFList qs
  | .inter qs => qs ≠ [] ∧ SQuery.WFList qs
  | .keyRange _ _ q => q.WF
  | .tokenPrefix _ => True
def SQuery.WFList : List SQuery → Prop
  | [] => True
  | q :: qs => q.WF ∧ SQuery.WFList qs
end

mutual
/-- every `KeyRange` begins at a key of the domain (it is passed to `Advance`) -/
def SQuery.KeysIn (K : Nat → Prop) : SQuery → Prop
  | .empty => True
  | .all _ => True
  | .union qs => SQuery.KeysInList K qs
  | .inter qs => SQuery.KeysInList K qs
  | .keyRange b _ q => K b ∧ q.KeysIn K
  | .tokenPrefix _ => True
def SQuery.KeysInList (K : Nat → Prop) : List SQuery → Prop
  | [] => True
  | q :: qs => q.KeysIn K ∧ SQuery.KeysInList K qs
end

end B6.Spec.SearchQuery
