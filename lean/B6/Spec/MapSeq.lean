/-!
# What `map` yields (spec for C25)

`map f xs` evaluated lazily by a consumer: the results of `f` on `xs` in order, up to the first element on which
`f` fails, and then that failure.
-/
namespace B6.Spec.MapSeq

def mapSeq {α β ε : Type} (f : α → Except ε β) : List α → List β × Option ε
  | [] => ([], none)
  | x :: xs =>
    match f x with
    | .error e => ([], some e)
    | .ok y => (y :: (mapSeq f xs).1, (mapSeq f xs).2)

/-- does `f` fail on the `k`-th element? -/
def bad {α β ε : Type} (f : α → Except ε β) (xs : List α) (k : Nat) : Bool :=
  match xs[k]? with
  | some x => (match f x with | .error _ => true | .ok _ => false)
  | none => false

/-- the value `f` yields on the `k`-th element -/
def val {α β ε : Type} (f : α → Except ε β) (xs : List α) (k : Nat) : Option β :=
  match xs[k]? with
  | some x => (match f x with | .error _ => none | .ok y => some y)
  | none => none

end B6.Spec.MapSeq
