import B6.Model.Service
/-!
# What C26 demands of a change — the reference

`specApply w c` is the world a *successful* application of `c` produces (`none` = the change is not
applicable to `w`: one of its elements fails validation at the moment it is reached).  `targets c` is the
list of feature IDs the change names.  No canary, no accumulators, no partial results.
-/
namespace B6.Spec.ChangeSpec
open B6.Model.Service

def addFeaturesSpec (w : World) : List Feature → Option World
  | [] => some w
  | f :: rest => match addFeature w f with
    | none => none
    | some w' => addFeaturesSpec w' rest

def addTagsSpec (w : World) : List (FId × String × String) → Option World
  | [] => some w
  | (id, k, v) :: rest => match addTag w id k v with
    | none => none
    | some w' => addTagsSpec w' rest

def removeTagsSpec (w : World) : List (FId × String) → Option World
  | [] => some w
  | (id, k) :: rest => match removeTag w id k with
    | none => none
    | some w' => removeTagsSpec w' rest

mutual
def specApply (w : World) : Change → Option World
  | .addFeatures fs => addFeaturesSpec w fs
  | .addTags ts => addTagsSpec w ts
  | .removeTags ts => removeTagsSpec w ts
  | .merged cs => specApplyAll w cs
def specApplyAll (w : World) : Changes → Option World
  | .nil => some w
  | .cons c cs => match specApply w c with
    | none => none
    | some w' => specApplyAll w' cs
end

mutual
/-- the feature IDs a change names -/
def targets : Change → List FId
  | .addFeatures fs => fs.map (·.id)
  | .addTags ts => ts.map (·.1)
  | .removeTags ts => ts.map (·.1)
  | .merged cs => targetsAll cs
def targetsAll : Changes → List FId
  | .nil => []
  | .cons c cs => targets c ++ targetsAll cs
end

mutual
/-- the change has no element at all (empty lists, merges of such) -/
def elementFree : Change → Bool
  | .addFeatures fs => fs.isEmpty
  | .addTags ts => ts.isEmpty
  | .removeTags ts => ts.isEmpty
  | .merged cs => elementFreeAll cs
def elementFreeAll : Changes → Bool
  | .nil => true
  | .cons c cs => elementFree c && elementFreeAll cs
end

/-- the reference for a world of the given kind: a read-only world (`ro`) rejects every element, so only a
change without elements "applies" (and changes nothing); a mutable world follows `specApply` -/
def specApplyR (ro : Bool) (w : World) (c : Change) : Option World :=
  if ro then (if elementFree c then some w else none) else specApply w c

/-- same set of IDs -/
def SameIds (xs ys : List FId) : Prop := ∀ id, id ∈ xs ↔ id ∈ ys

end B6.Spec.ChangeSpec
