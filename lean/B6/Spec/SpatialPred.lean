import B6.Model.SpatialPred
/-!
Executable statement of what the spatial predicates are meant to decide, on the same primitive tables as
`B6.Model.SpatialPred` but without any of the code's control flow: "some entry of the (flattened) table is
true".  Evaluated by the C05 driver on every implementation answer; `B6.Props.C05` proves the repaired model
equal to it and relates it to the ∃-statements.
-/
namespace B6.Spec.SpatialPred
open B6.Model.SpatialPred

def someTrue (bs : List Bool) : Bool := bs.contains true
def someTrue2 (rows : List (List Bool)) : Bool := rows.flatten.contains true

def cells : CellsTable → Bool
  | .point hits => someTrue hits
  | .path hits => someTrue hits
  | .area hits => someTrue2 hits
  | .other => false

def point : PointTable → Bool
  | .point eq => eq
  | .path within => within
  | .area cs => someTrue cs
  | .other => false

/-- polyline vs polygon: the documented vertex approximation is the accepted meaning -/
def line : LineTable → Bool
  | .point within => within
  | .path crosses => crosses
  | .area vs => someTrue2 vs
  | .other => false

/-- a query polyline without vertices meets no point (its table entry cannot even be evaluated) -/
def lineQuery (nq : Nat) (t : LineTable) : Bool :=
  match nq, t with
  | 0, .point _ => false
  | _, t => line t

def mp : MpTable → Bool
  | .point cs => someTrue cs
  | .path vs => someTrue2 vs
  | .area ms => someTrue2 ms
  | .other => false

/-- cap vs polygon, exactly: centre inside the polygon, or some edge within the radius -/
def capPoly (t : CapPoly) : Bool := t.centreIn || someTrue (t.loops.flatten.map (·.within))

def cap : CapTable → Bool
  | .point b => b
  | .path b => b
  | .area ps => someTrue (ps.map capPoly)
  | .other => false

def geo : GeoQuery → Bool
  | .point t => point t
  | .line t => line t
  | .mp t => mp t
  | .empty => false

/-- the named feature itself, or a feature meeting its geometry — provided the named feature has geometry -/
def feature (sameID : Bool) (q : GeoQuery) : Bool :=
  match q with
  | .empty => false
  | q => sameID || geo q

end B6.Spec.SpatialPred
