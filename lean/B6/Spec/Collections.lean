import B6.Model.Collections
import B6.Model.CollectionsExpr
/-!
# List reference definitions for the collection functions (C24)

What each function is documented to compute, as plain list functions on "the items the argument yields +
how its iteration ends".  An error (inner iteration error, or the applied function failing on a value) ends
the result at that point with `Fin.err`.
-/
namespace B6.Spec.Collections
open B6.Model.Collections

def finOf : End → Fin
  | .done => .done
  | .err => .err

/-- take: the first `n` items (`n ≤ 0`: none); the inner end only shows if fewer than `n` items exist -/
def takeRef (n : Int) (s : Src) : List Item × Fin :=
  if n.toNat ≤ s.rest.length then (s.rest.take n.toNat, .done) else (s.rest, finOf s.fin)

/-- map: `f` on every value, keys unchanged -/
def mapRef (f : Val → Option Val) (fin : End) : List Item → List Item × Fin
  | [] => ([], finOf fin)
  | (k, v) :: xs =>
    match f v with
    | some v' => ((k, v') :: (mapRef f fin xs).1, (mapRef f fin xs).2)
    | none => ([], .err)

/-- map-items: `g` on every (key, value) -/
def mapItemsRef (g : Val → Val → Option Item) (fin : End) : List Item → List Item × Fin
  | [] => ([], finOf fin)
  | (k, v) :: xs =>
    match g k v with
    | some kv => (kv :: (mapItemsRef g fin xs).1, (mapItemsRef g fin xs).2)
    | none => ([], .err)

/-- filter: the items whose value satisfies `p` (anything but a bool answer is an error) -/
def filterRef (p : Val → Option Val) (fin : End) : List Item → List Item × Fin
  | [] => ([], finOf fin)
  | (k, v) :: xs =>
    match p v with
    | some (.bool true) => ((k, v) :: (filterRef p fin xs).1, (filterRef p fin xs).2)
    | some (.bool false) => filterRef p fin xs
    | _ => ([], .err)

/-- flatten: the inner collections one after the other -/
def flattenRef (ofin : End) : List Src → List Item × Fin
  | [] => ([], finOf ofin)
  | c :: cs =>
    match c.fin with
    | .done => (c.rest ++ (flattenRef ofin cs).1, (flattenRef ofin cs).2)
    | .err => (c.rest, .err)

/-- join-missing as a three-way merge: a joined entry whose key equals the current base key is dropped,
otherwise the entry with the lesser key goes first (base first when neither is less).
`none` from a comparison = error. -/
def joinRef (bfin jfin : End) : List Item → List Item → List Item × Fin
  | [], [] => (match bfin, jfin with
    | .done, .done => ([], .done)
    | _, _ => ([], .err))
  | [], j :: js => (match bfin with
    | .err => ([], .err)
    | .done => (j :: (joinRef bfin jfin [] js).1, (joinRef bfin jfin [] js).2))
  | b :: bs, [] => (match jfin with
    | .err => ([], .err)
    | .done => (b :: (joinRef bfin jfin bs []).1, (joinRef bfin jfin bs []).2))
  | b :: bs, j :: js =>
    match goEqual j.1 b.1 with
    | none => ([], .err)
    | some true => joinRef bfin jfin (b :: bs) js
    | some false =>
      match goLess j.1 b.1 with
      | none => ([], .err)
      | some true => (j :: (joinRef bfin jfin (b :: bs) js).1, (joinRef bfin jfin (b :: bs) js).2)
      | some false => (b :: (joinRef bfin jfin bs (j :: js)).1, (joinRef bfin jfin bs (j :: js)).2)

/-- the sum of the (int) values stored under `k` -/
def sumFor (k : Val) : List Item → Int
  | [] => 0
  | (k', .int v) :: xs => if k' = k then v + sumFor k xs else sumFor k xs
  | _ :: xs => sumFor k xs

/-- how often `k` is produced by `keyOf`, weighted by `delta` -/
def weightFor (keyOf : Item → Val) (delta : Item → Int) (k : Val) : List Item → Int
  | [] => 0
  | it :: xs => if keyOf it = k then delta it + weightFor keyOf delta k xs else weightFor keyOf delta k xs

def lookup (k : Val) : List (Val × Int) → Option Int
  | [] => none
  | (k', c) :: rest => if k' = k then some c else lookup k rest

/-- linear scan of a collection feature: value at the first key equal to `key` -/
def scanFirst (keys vals : Array Val) (key : Val) : Option Val :=
  match (List.range keys.size).find? (eqAt keys key) with
  | some i => vals[i]?
  | none => none

/-- linear scan: values at all keys equal to `key`, in order -/
def scanAll (keys vals : Array Val) (key : Val) : List Val :=
  ((List.range keys.size).filter (eqAt keys key)).filterMap (vals[·]?)

/-- `out` is "the n greatest of `input`, greatest first": a selection of `input` (as a multiset) of length
`min n |input|`, sorted descending by value, and nothing left out is greater than anything selected -/
def IsTopOf (n : Int) (input out : List Item) : Prop :=
  ∃ rest : List Item, (out ++ rest).Perm input ∧
    out.length = min n.toNat input.length ∧
    out.Pairwise (fun a b => ¬ itemLess a b) ∧
    ∀ r ∈ rest, ∀ o ∈ out, ¬ itemLess o r

/-- the ordinary merge of two key-sorted lists (the first list wins ties) -/
def mergeRef (lt : Val → Val → Bool) : List Item → List Item → List Item
  | [], js => js
  | b :: bs, [] => b :: bs
  | b :: bs, j :: js =>
    if lt j.1 b.1 then j :: mergeRef lt (b :: bs) js else b :: mergeRef lt bs (j :: js)

/-- `j`'s key does not occur in `base` -/
def absentFrom (base : List Item) (j : Item) : Bool := base.all fun b => decide (b.1 ≠ j.1)

/-- `b6.Less` / `b6.Equal` restricted to a set `S` of keys behave as a strict total order `lt` and equality -/
structure KeyOrder (S : Val → Prop) (lt : Val → Val → Bool) : Prop where
  less : ∀ a b, S a → S b → goLess a b = some (lt a b)
  equal : ∀ a b, S a → S b → goEqual a b = some (decide (a = b))
  irrefl : ∀ a, S a → lt a a = false
  trans : ∀ a b c, S a → S b → S c → lt a b = true → lt b c = true → lt a c = true
  total : ∀ a b, S a → S b → lt a b = true ∨ a = b ∨ lt b a = true

/-- keys never decrease -/
def KeySorted (lt : Val → Val → Bool) (l : List Item) : Prop := l.Pairwise fun x y => lt y.1 x.1 = false

/-! ## compositions: the reference meaning of a `Co` expression -/

def srcOf (d : Den) : Option Src := d.src?

mutual
def specDen : Co → Den
  | .arr items => ⟨items, .done, some items.length⟩
  | .take c n =>
    let d := specDen c
    match d.src? with
    | none => outOfFuel
    | some s => ⟨(takeRef n s).1, (takeRef n s).2, d.count.map fun k => min k (max n 0)⟩
  | .filter c p =>
    match (specDen c).src? with
    | none => outOfFuel
    | some s => ⟨(filterRef p.apply s.fin s.rest).1, (filterRef p.apply s.fin s.rest).2, none⟩
  | .map c f =>
    let d := specDen c
    match d.src? with
    | none => outOfFuel
    | some s => ⟨(mapRef f.apply s.fin s.rest).1, (mapRef f.apply s.fin s.rest).2, d.count⟩
  | .mapItems c g =>
    let d := specDen c
    match d.src? with
    | none => outOfFuel
    | some s => ⟨(mapItemsRef g.apply s.fin s.rest).1, (mapItemsRef g.apply s.fin s.rest).2, d.count⟩
  | .flatten cs =>
    match specDenList cs with
    | none => outOfFuel
    | some ss => ⟨(flattenRef .done ss).1, (flattenRef .done ss).2, none⟩
  | .join b j =>
    match (specDen b).src?, (specDen j).src? with
    | some sb, some sj =>
      ⟨(joinRef sb.fin sj.fin sb.rest sj.rest).1, (joinRef sb.fin sj.fin sb.rest sj.rest).2, none⟩
    | _, _ => outOfFuel
def specDenList : CoList → Option (List Src)
  | .nil => some []
  | .cons c rest =>
    match (specDen c).src?, specDenList rest with
    | some s, some ss => some (s :: ss)
    | _, _ => none
end

/-- executable form of `IsTopOf` used by the driver on the implementation's answer -/
def eraseFirst (x : Item) : List Item → Option (List Item)
  | [] => none
  | y :: ys => if x = y then some ys else (eraseFirst x ys).map (y :: ·)

def eraseAll : List Item → List Item → Option (List Item)
  | [], input => some input
  | x :: xs, input => match eraseFirst x input with
    | none => none
    | some input' => eraseAll xs input'

def sortedDesc : List Item → Bool
  | a :: b :: rest => !itemLess a b && sortedDesc (b :: rest)
  | _ => true

def isTopOfB (n : Int) (input out : List Item) : Bool :=
  match eraseAll out input with
  | none => false
  | some rest =>
    out.length == min n.toNat input.length && sortedDesc out &&
      rest.all fun r => out.all fun o => !itemLess o r

end B6.Spec.Collections
