import B6.Spec.SearchQuery
/-!
# Tag queries and what they denote (C03)

(This is the C03 "Spec/Query" of DESIGN §5; it lives under this name because `B6/Spec/Query.lean` is used by
the C22 builder.)

A feature is its ID (type, namespace index, value — embedded order-preservingly into the naturals exactly as
`b6.FeatureID.Less` compares: type, then namespace, then value) and its ordered tag list.
`denote q f` is the meaning of a query on one feature — *my own* denotation, not Go's `Matches`:
`typed` means "has the type **and** satisfies the child" (Go's `Typed.Matches` ignored the child).
`expected fs q` is what `FindFeatures` must return: the IDs of the searchable features satisfying `q`, strictly
increasing.  (A point whose only tag is its location is not searchable — `TokensForFeature` gives it no token,
and /repo's own test `ValidatePointsWithoutTagsArentIndexed` demands it.)
-/
namespace B6.Spec.TagQuery
open B6.Spec.Cursor B6.Spec.SearchQuery

/-- namespaces are numbered in increasing string order, 0 = the invalid (empty) namespace -/
def nsBound : Nat := 8192   -- 13 namespace bits, as `compact.CombineTypeAndNamespace`: `key` is C08's `keyNat`
def valBound : Nat := 2 ^ 64

/-- the order embedding of `b6.FeatureID` -/
def key (typ ns val : Nat) : Nat := (typ * nsBound + ns) * valBound + val

structure Feature where
  typ : Nat                      -- point 0, path 1, area 2, relation 3, (invalid 4,) collection 5, expression 6
  ns : Nat
  val : Nat
  tags : List (Token × Token)    -- key, value (`Value.String()`), in order
  deriving Repr, DecidableEq

def Feature.id (f : Feature) : Nat := key f.typ f.ns f.val

/-- `Feature.Get(key)`: the first tag with the key -/
def Feature.get (f : Feature) (k : Token) : Option Token :=
  (f.tags.find? (fun t => t.1 == k)).map (·.2)

inductive Query where
  | all
  | empty
  | tagged (k v : Token)
  | keyed (k : Token)
  | typed (t : Nat) (q : Query)
  | and (qs : List Query)
  | or (qs : List Query)
  deriving Repr

mutual
def denote : Query → Feature → Bool
  | .all, _ => true
  | .empty, _ => false
  | .tagged k v, f => f.get k == some v
  | .keyed k, f => (f.get k).isSome
  | .typed t q, f => f.typ == t && denote q f
  | .and qs, f => denoteAll qs f
  | .or qs, f => denoteAny qs f
def denoteAll : List Query → Feature → Bool
  | [], _ => true
  | q :: qs, f => denote q f && denoteAll qs f
def denoteAny : List Query → Feature → Bool
  | [], _ => false
  | q :: qs, f => denote q f || denoteAny qs f
end

/-- not "a point with exactly one tag" -/
def searchable (f : Feature) : Bool := !(f.typ == 0 && f.tags.length == 1)

/-- what `FindFeatures(q)` has to return -/
def expected (fs : List Feature) (q : Query) : List Nat :=
  sortDedup ((fs.filter (fun f => searchable f && denote q f)).map Feature.id)

/-- what filtering with `Matches` has to keep (no searchability condition) -/
def expectedMatches (fs : List Feature) (q : Query) : List Feature := fs.filter (denote q)

end B6.Spec.TagQuery
