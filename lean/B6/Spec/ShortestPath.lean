import B6.Model.Dijkstra
/-!
# What C30 demands, stated without any search algorithm

A *walk* is a finite chain of traversable (usable) segments starting at an origin; its cost is the left fold
`((0 + w₁) + w₂) + …` — exactly how the search accumulates `r.distance + weight`, so no associativity of `+` is
assumed.  The true shortest distance of a point is the least cost of a walk to it; the property is phrased
directly with walks:

* sound:     a recorded distance is the cost of a walk (`∃ es, Walk … p d es`);
* optimal:   it is `≤` the cost of *every* walk to that point;
* complete:  every point that has a walk of cost `< max` is recorded;
* route:     `BuildRoute`'s steps are such a walk, each step's `Cost` being the cost of the prefix (`RouteTo`).
-/
namespace B6.Spec.ShortestPath
open B6.Model.Dijkstra

variable {P S α : Type} [Cost α]

/-- `Walk g origins p c es`: `es` is a chain of usable segments from some origin to `p` with left-folded cost `c`. -/
inductive Walk (g : Graph P S α) (origins : List P) : P → α → List (Edge P S α) → Prop
  | origin {o : P} : o ∈ origins → Walk g origins o Cost.zero []
  | snoc {u : P} {c : α} {es : List (Edge P S α)} {e : Edge P S α} :
      Walk g origins u c es → e ∈ g.adj u → e.usable = true →
      Walk g origins e.last (c + e.weight) (es ++ [e])

/-- weights of traversable segments are non-negative -/
def NonNeg (g : Graph P S α) : Prop :=
  ∀ p e, e ∈ g.adj p → e.usable = true → (Cost.zero : α) ≤ e.weight

/-- `Traverse(p)` returns segments that start at `p` (b6: `ValidateTraverseReturnsSegmentsWithCorrectOrigin`) -/
def FirstOk (g : Graph P S α) : Prop :=
  ∀ p e, e ∈ g.adj p → e.first = p

/-- `RouteTo g origins o steps p c`: `steps` (as `b6.Route.Steps`, origin first) lead from origin `o` to `p`;
every step goes over a usable segment traversed from the previous point, ends at its `dest`, and carries the
accumulated cost; `c` is the last accumulated cost. -/
inductive RouteTo (g : Graph P S α) (origins : List P) (o : P) : List (Step P S α) → P → α → Prop
  | nil : o ∈ origins → RouteTo g origins o [] o Cost.zero
  | snoc {steps : List (Step P S α)} {u : P} {c : α} {b : Edge P S α} :
      RouteTo g origins o steps u c → b ∈ g.adj u → b.first = u → b.usable = true →
      RouteTo g origins o (steps ++ [{ dest := b.last, via := b, cost := c + b.weight }]) b.last (c + b.weight)

theorem RouteTo.walk {g : Graph P S α} {origins : List P} {o p : P} {steps : List (Step P S α)} {c : α}
    (h : RouteTo g origins o steps p c) : Walk g origins p c (steps.map (·.via)) := by
  induction h with
  | nil ho => exact Walk.origin ho
  | snoc _ hb _ hu ih =>
    rw [List.map_append]
    exact Walk.snoc ih hb hu

end B6.Spec.ShortestPath
