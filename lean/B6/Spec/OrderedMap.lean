/-! Ordered-map specification for tag lists (C39): an association list with distinct keys whose
order is insertion order. -/
namespace B6.Spec.OrderedMap

abbrev Entry := String × String
abbrev OMap := List Entry

def keys (m : OMap) : List String := m.map (·.1)

def Distinct (m : OMap) : Prop := (keys m).Nodup

def lookup (m : OMap) (k : String) : Option String := (m.find? (·.1 == k)).map (·.2)

/-- set: replace the value in place when the key is present, else append. -/
def set (m : OMap) (e : Entry) : OMap :=
  if m.any (·.1 == e.1) then m.map (fun x => if x.1 == e.1 then (x.1, e.2) else x) else m ++ [e]

def remove (m : OMap) (k : String) : OMap := m.filter (·.1 != k)

def removeAll (m : OMap) (ks : List String) : OMap := m.filter (fun x => !ks.contains x.1)

end B6.Spec.OrderedMap
