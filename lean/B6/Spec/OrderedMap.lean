/-! Ordered-map specification for tag lists (C39): an association list with distinct keys whose
order is insertion order. -/
namespace B6.Spec.OrderedMap

abbrev Entry := String × String
abbrev OMap := List Entry

def keys (m : OMap) : List String := m.map (·.1)

def Distinct (m : OMap) : Prop := (keys m).Nodup

instance (m : OMap) : Decidable (Distinct m) := by unfold Distinct; infer_instance

def lookup (m : OMap) (k : String) : Option String := (m.find? (·.1 == k)).map (·.2)

/-- set: replace the value in place when the key is present, else append. -/
def set (m : OMap) (e : Entry) : OMap :=
  if m.any (·.1 == e.1) then m.map (fun x => if x.1 == e.1 then (x.1, e.2) else x) else m ++ [e]

def remove (m : OMap) (k : String) : OMap := m.filter (·.1 != k)

def removeAll (m : OMap) (ks : List String) : OMap := m.filter (fun x => !ks.contains x.1)

/-! ## Operations and observations (the interface both the spec and the model of `b6.Tags` implement) -/

/-- One call of the tag-list API. -/
inductive Op where
  /-- `Get(k)` -/
  | get (k : String)
  /-- `ModifyOrAddTag(k=v)` -/
  | set (e : Entry)
  /-- `AddTag(k=v)` — in the property's domain only when `k` is not yet a key -/
  | add (e : Entry)
  /-- `RemoveTag(k)` -/
  | rm (k : String)
  /-- `RemoveTags(ks)` — any key list: repeated keys and absent keys allowed -/
  | rms (ks : List String)
  /-- `MergeFrom(other)` — in the property's domain only when `other` has distinct keys -/
  | merge (other : OMap)
  /-- `t = t.Clone()` -/
  | clone
deriving Repr, DecidableEq

/-- What a call returns to the caller. -/
inductive Out where
  | unit
  /-- result of `Get`: the value, or absent -/
  | found (v : Option String)
  /-- result of `ModifyOrAddTag`: (modified?, old value — `""` when it was added, as the Go code returns) -/
  | modified (m : Bool) (old : String)
deriving Repr, DecidableEq

/-- the ordered-map meaning of every operation -/
def step (m : OMap) : Op → OMap × Out
  | .get k => (m, .found (lookup m k))
  | .set e => (set m e, match lookup m e.1 with
                        | some old => .modified true old
                        | none => .modified false "")
  | .add e => (m ++ [e], .unit)
  | .rm k => (remove m k, .unit)
  | .rms ks => (removeAll m ks, .unit)
  | .merge o => (o, .unit)
  | .clone => (m, .unit)

/-- Is the call inside the property's domain ("tag lists with distinct keys") in state `m`?
`AddTag` is a blind append and `MergeFrom` a blind copy, so they keep keys distinct only under these
side conditions; every other operation is always in the domain. -/
def Op.ok (m : OMap) : Op → Bool
  | .add e => !(keys m).contains e.1
  | .merge o => decide (Distinct o)
  | _ => true

/-- run an operation sequence, collecting what each call returned -/
def run (m : OMap) : List Op → OMap × List Out
  | [] => (m, [])
  | op :: ops =>
    let r := step m op
    let rest := run r.1 ops
    (rest.1, r.2 :: rest.2)

/-- every call of the sequence is in the property's domain in the state it is applied to -/
def ValidFrom (m : OMap) : List Op → Prop
  | [] => True
  | op :: ops => op.ok m = true ∧ ValidFrom (step m op).1 ops

instance : (m : OMap) → (ops : List Op) → Decidable (ValidFrom m ops)
  | _, [] => isTrue trivial
  | m, op :: ops =>
    have := instDecidableValidFrom (step m op).1 ops
    by unfold ValidFrom; infer_instance

end B6.Spec.OrderedMap
